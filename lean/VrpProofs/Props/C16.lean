import VrpModel.Store

/-!
# C16 — Formulations are isolated from their source graph and from each other (object-store level)

The theorems are about the explicit object store of `VrpModel/Store.lean`; they certify the dataflow
(who reads / writes which cell).  That Python's `copy.deepcopy` yields disjoint objects is outside the
model and is carried by the identity-disjointness test of the correspondence run.
-/
namespace Vrp.C16
open Vrp

variable {σ α : Type} (mk : Nat → Graph → σ) (act : σ → α → σ)

/-- **the source is never changed**, whatever is constructed, made feasible or queried, in any order -/
theorem source_unchanged (w : World σ) (ops : List (WOp α)) : (World.run mk act w ops).source = w.source := by
  induction ops generalizing w with
  | nil => rfl
  | cons op ops ih =>
    simp only [World.run, List.foldl_cons] at ih ⊢
    rw [ih]
    cases op with
    | get k => simp only [World.step]; split <;> rfl
    | act k a => simp only [World.step]; split <;> rfl

theorem step_other_slot (w : World σ) (op : WOp α) (j : Nat) (h : op.target ≠ j) :
    (World.step mk act w op).slot j = w.slot j := by
  cases op with
  | get k =>
    simp only [WOp.target] at h
    simp only [World.step]; split
    · rfl
    · simp [Ne.symm h]
  | act k a =>
    simp only [WOp.target] at h
    simp only [World.step]; split
    · rfl
    · simp [Ne.symm h]

theorem step_source (w : World σ) (op : WOp α) : (World.step mk act w op).source = w.source := by
  cases op with
  | get k => simp only [World.step]; split <;> rfl
  | act k a => simp only [World.step]; split <;> rfl

/-- one step on slot `j` only depends on the source and on slot `j` -/
theorem step_slot_congr (w w' : World σ) (op : WOp α) (j : Nat) (hs : w.source = w'.source)
    (hj : w.slot j = w'.slot j) :
    (World.step mk act w op).slot j = (World.step mk act w' op).slot j := by
  by_cases ht : op.target = j
  · cases op with
    | get k =>
      simp only [WOp.target] at ht; subst ht
      simp only [World.step]
      rw [← hj]
      cases h : w.slot k <;> simp [h, hs, hj]
      · rw [← hj, h]
    | act k a =>
      simp only [WOp.target] at ht; subst ht
      simp only [World.step]
      rw [← hj]
      cases h : w.slot k <;> simp [h, hj]
      · rw [← hj, h]
  · rw [step_other_slot mk act w op j ht, step_other_slot mk act w' op j ht, hj]

/-- **non-interference**: the state of formulation `j` after any history depends only on the source and on the
    calls addressed to `j` (all other calls can be dropped) -/
theorem non_interference (w : World σ) (ops : List (WOp α)) (j : Nat) :
    (World.run mk act w ops).slot j = (World.run mk act w (ops.filter fun op => op.target = j)).slot j := by
  suffices ∀ (w w' : World σ), w.source = w'.source → w.slot j = w'.slot j →
      (World.run mk act w ops).slot j = (World.run mk act w' (ops.filter fun op => op.target = j)).slot j from
    this w w rfl rfl
  induction ops with
  | nil => intro w w' _ hj; simpa [World.run] using hj
  | cons op ops ih =>
    intro w w' hs hj
    simp only [World.run, List.foldl_cons] at ih ⊢
    by_cases ht : op.target = j
    · simp only [List.filter_cons, ht, decide_true, if_true, List.foldl_cons]
      exact ih _ _ (by rw [step_source, step_source, hs]) (step_slot_congr mk act w w' op j hs hj)
    · simp only [List.filter_cons, ht, decide_false]
      exact ih _ _ (by rw [step_source, hs]) (by rw [step_other_slot mk act w op j ht, hj])

/-- **order independence**: two histories that contain the same calls per formulation (in the same relative
    order for each formulation, arbitrarily interleaved across formulations — e.g. the 6 request orders of the
    three MIRP getters) produce identical formulations -/
theorem order_independent (w : World σ) (ops ops' : List (WOp α))
    (h : ∀ j, ops.filter (fun op => op.target = j) = ops'.filter (fun op => op.target = j)) (j : Nat) :
    (World.run mk act w ops).slot j = (World.run mk act w ops').slot j := by
  rw [non_interference mk act w ops j, non_interference mk act w ops' j, h j]

/-- **requesting a formulation twice returns the same object** (the second request changes nothing) -/
theorem getter_idempotent (w : World σ) (k : Nat) :
    World.step mk act (World.step mk act w (.get k)) (.get k) = World.step mk act w (.get k) := by
  simp only [World.step]
  cases h : w.slot k with
  | some s => simp [h]
  | none => simp [h]

end Vrp.C16
