import VrpModel.Num

namespace Vrp.C16

/-- placeholder until the object-store model is merged -/
theorem placeholder_true : True := trivial

end Vrp.C16
