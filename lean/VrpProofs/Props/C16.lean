import VrpModel.Store
import VrpModel.MirpGetters

/-!
# C16 — Formulations are isolated from their source graph and from each other (object-store level)

The theorems are about the explicit object store of `VrpModel/Store.lean`; they certify the dataflow
(who reads / writes which cell).  That Python's `copy.deepcopy` yields disjoint objects is outside the
model and is carried by the identity-disjointness test of the correspondence run.
-/
namespace Vrp.C16
open Vrp

variable {σ α : Type} (mk : Nat → Graph → σ) (act : σ → α → σ)

/-- **the source is never changed**, whatever is constructed, made feasible or queried, in any order -/
theorem source_unchanged (w : World σ) (ops : List (WOp α)) : (World.run mk act w ops).source = w.source := by
  induction ops generalizing w with
  | nil => rfl
  | cons op ops ih =>
    simp only [World.run, List.foldl_cons] at ih ⊢
    rw [ih]
    cases op with
    | get k => simp only [World.step]; split <;> rfl
    | act k a => simp only [World.step]; split <;> rfl

theorem step_other_slot (w : World σ) (op : WOp α) (j : Nat) (h : op.target ≠ j) :
    (World.step mk act w op).slot j = w.slot j := by
  cases op with
  | get k =>
    simp only [WOp.target] at h
    simp only [World.step]; split
    · rfl
    · simp [Ne.symm h]
  | act k a =>
    simp only [WOp.target] at h
    simp only [World.step]; split
    · rfl
    · simp [Ne.symm h]

theorem step_source (w : World σ) (op : WOp α) : (World.step mk act w op).source = w.source := by
  cases op with
  | get k => simp only [World.step]; split <;> rfl
  | act k a => simp only [World.step]; split <;> rfl

/-- one step on slot `j` only depends on the source and on slot `j` -/
theorem step_slot_congr (w w' : World σ) (op : WOp α) (j : Nat) (hs : w.source = w'.source)
    (hj : w.slot j = w'.slot j) :
    (World.step mk act w op).slot j = (World.step mk act w' op).slot j := by
  by_cases ht : op.target = j
  · cases op with
    | get k =>
      simp only [WOp.target] at ht; subst ht
      simp only [World.step]
      rw [← hj]
      cases h : w.slot k <;> simp [h, hs, hj]
      · rw [← hj, h]
    | act k a =>
      simp only [WOp.target] at ht; subst ht
      simp only [World.step]
      rw [← hj]
      cases h : w.slot k <;> simp [h, hj]
      · rw [← hj, h]
  · rw [step_other_slot mk act w op j ht, step_other_slot mk act w' op j ht, hj]

/-- **non-interference**: the state of formulation `j` after any history depends only on the source and on the
    calls addressed to `j` (all other calls can be dropped) -/
theorem non_interference (w : World σ) (ops : List (WOp α)) (j : Nat) :
    (World.run mk act w ops).slot j = (World.run mk act w (ops.filter fun op => op.target = j)).slot j := by
  suffices ∀ (w w' : World σ), w.source = w'.source → w.slot j = w'.slot j →
      (World.run mk act w ops).slot j = (World.run mk act w' (ops.filter fun op => op.target = j)).slot j from
    this w w rfl rfl
  induction ops with
  | nil => intro w w' _ hj; simpa [World.run] using hj
  | cons op ops ih =>
    intro w w' hs hj
    simp only [World.run, List.foldl_cons] at ih ⊢
    by_cases ht : op.target = j
    · simp only [List.filter_cons, ht, decide_true, if_true, List.foldl_cons]
      exact ih _ _ (by rw [step_source, step_source, hs]) (step_slot_congr mk act w w' op j hs hj)
    · simp only [List.filter_cons, ht, decide_false]
      exact ih _ _ (by rw [step_source, hs]) (by rw [step_other_slot mk act w op j ht, hj])

/-- **order independence**: two histories that contain the same calls per formulation (in the same relative
    order for each formulation, arbitrarily interleaved across formulations — e.g. the 6 request orders of the
    three MIRP getters) produce identical formulations -/
theorem order_independent (w : World σ) (ops ops' : List (WOp α))
    (h : ∀ j, ops.filter (fun op => op.target = j) = ops'.filter (fun op => op.target = j)) (j : Nat) :
    (World.run mk act w ops).slot j = (World.run mk act w ops').slot j := by
  rw [non_interference mk act w ops j, non_interference mk act w ops' j, h j]

/-- **requesting a formulation twice returns the same object** (the second request changes nothing) -/
theorem getter_idempotent (w : World σ) (k : Nat) :
    World.step mk act (World.step mk act w (.get k)) (.get k) = World.step mk act w (.get k) := by
  simp only [World.step]
  cases h : w.slot k with
  | some s => simp [h]
  | none => simp [h]

end Vrp.C16

/-!
## Instantiation with the three modelled MIRP formulations

The generic theorems above are stated for an arbitrary constructor `mk` and effect `act`.  Here they are
instantiated with the modelled getters of `VrpModel/MirpGetters.lean` (slot 0 = arc-based, slot 1 = path-based,
slot ≥ 2 = sequence-based) and the modelled `make_feasible` heuristics of `VrpModel/Heuristics.lean`.
-/
namespace Vrp.C16
open Vrp

/-- the state of one formulation object -/
inductive Form where
  | arc (I : ArcInst)
  | path (P : PathInst)
  | seq (I : SeqInst)

/-- a call on a formulation object: `make_feasible(high)` or any read-only query -/
inductive FAct where
  | heur (high : Rat)
  | query

/-- the three MIRP getters as constructors from (a copy of) the source graph `src`: slot 0 `get_arc_based`,
    slot 1 `get_path_based` (scripted sampler `pick`, port frequencies `freqs`; when `estimate_high_cost`
    raises, the empty pool on `src`), slot ≥ 2 `get_sequence_based(strict)` (when it raises, the bare
    `SeqInst.new src strict`) -/
def mkForm (m : Mirp) (freqs : List Rat) (pick : Nat → List Nat → Nat) (strict : Bool) : Nat → Graph → Form
  | 0, src => .arc ({ m with g := src } : Mirp).getArcBased
  | 1, src => .path ((({ m with g := src } : Mirp).getPathBased freqs pick).getD { g := src })
  | _ + 2, src => .seq ((({ m with g := src } : Mirp).getSeqBased strict).getD (SeqInst.new src strict))

/-- effect of a call: `heur high` runs the formulation's own `make_feasible` (an error leaves the object
    unchanged; the returned solution vector is not part of the object state), `query` changes nothing.
    `pick` is the scripted sampler that the path-based heuristic takes. -/
def actForm (pick : Nat → List Nat → Nat) : Form → FAct → Form
  | .arc I, .heur high => match I.makeFeasible high with | .ok (J, _) => .arc J | .error _ => .arc I
  | .path P, .heur high => match P.makeFeasible high pick with | .ok (Q, _) => .path Q | .error _ => .path P
  | .seq I, .heur high => match I.makeFeasible high with | .ok (J, _) => .seq J | .error _ => .seq I
  | f, .query => f

/-- the world of a freshly built MIRP: its source graph, no formulation requested yet -/
def mirpWorld (m : Mirp) : World Form := { source := m.g, slot := fun _ => none }

/-- run a history of getter requests and calls on the MIRP `m` -/
def mirpRun (m : Mirp) (freqs : List Rat) (pick : Nat → List Nat → Nat) (strict : Bool)
    (ops : List (WOp FAct)) : World Form :=
  World.run (mkForm m freqs pick strict) (actForm pick) (mirpWorld m) ops

variable (m : Mirp) (freqs : List Rat) (pick : Nat → List Nat → Nat) (strict : Bool)

/-- **the MIRP's source graph is never changed** by requesting the three formulations, running their
    heuristics or querying them, in any order (instance of `source_unchanged`) -/
theorem mirp_source_unchanged (ops : List (WOp FAct)) : (mirpRun m freqs pick strict ops).source = m.g :=
  source_unchanged (mkForm m freqs pick strict) (actForm pick) (mirpWorld m) ops

/-- **non-interference of the MIRP formulations**: the state of formulation `j` after any history depends only
    on the source and on the calls addressed to `j` (instance of `non_interference`) -/
theorem mirp_non_interference (ops : List (WOp FAct)) (j : Nat) :
    (mirpRun m freqs pick strict ops).slot j
      = (mirpRun m freqs pick strict (ops.filter fun op => op.target = j)).slot j :=
  non_interference (mkForm m freqs pick strict) (actForm pick) (mirpWorld m) ops j

/-- **order independence of the MIRP getters**: two histories with the same per-slot sub-histories (e.g. the six
    request orders of the three getters, each followed by its own heuristic run) give the same three
    formulations (instance of `order_independent`) -/
theorem mirp_order_independent (ops₁ ops₂ : List (WOp FAct))
    (h : ∀ j, ops₁.filter (fun op => op.target = j) = ops₂.filter (fun op => op.target = j)) :
    ∀ j, (mirpRun m freqs pick strict ops₁).slot j = (mirpRun m freqs pick strict ops₂).slot j :=
  order_independent (mkForm m freqs pick strict) (actForm pick) (mirpWorld m) ops₁ ops₂ h

/-- **requesting a MIRP formulation twice returns the same object**, after any history (instance of
    `getter_idempotent`) -/
theorem mirp_getter_idempotent (ops : List (WOp FAct)) (k : Nat) :
    mirpRun m freqs pick strict (ops ++ [.get k, .get k]) = mirpRun m freqs pick strict (ops ++ [.get k]) := by
  simp only [mirpRun, World.run, List.foldl_append, List.foldl_cons, List.foldl_nil]
  exact getter_idempotent _ _ _ k

/-- the three slots really are the three modelled getters applied to the MIRP itself (not to some other graph) -/
theorem mirp_get_slots :
    (mirpRun m freqs pick strict [.get 0]).slot 0 = some (.arc m.getArcBased) ∧
    (mirpRun m freqs pick strict [.get 1]).slot 1
      = some (.path ((m.getPathBased freqs pick).getD { g := m.g })) ∧
    (mirpRun m freqs pick strict [.get 2]).slot 2
      = some (.seq ((m.getSeqBased strict).getD (SeqInst.new m.g strict))) :=
  ⟨rfl, rfl, rfl⟩

/-- per-slot sub-history of "request each formulation of `l` and run its heuristic, in the order of `l`" -/
theorem em_filter_getHeur (high : Rat) (l : List Nat) (hn : l.Nodup) (j : Nat) :
    (l.flatMap fun k => [WOp.get k, WOp.act k (FAct.heur high)]).filter (fun op => op.target = j)
      = if j ∈ l then [WOp.get j, WOp.act j (FAct.heur high)] else [] := by
  induction l with
  | nil => simp
  | cons k l ih =>
    rw [List.nodup_cons] at hn
    rw [List.flatMap_cons, List.filter_append, ih hn.2]
    by_cases hkj : k = j
    · subst hkj
      simp [WOp.target, hn.1]
    · have hjk : ¬ j = k := fun h => hkj h.symm
      simp [WOp.target, hkj, hjk]

/-- **the six request orders**: requesting the formulations `l₁` (each request followed by that formulation's
    heuristic run) in any other order `l₂` gives the same formulations — in particular for the six orders of
    `[0, 1, 2]` (arc, path, sequence) -/
theorem mirp_request_order_irrelevant (high : Rat) (l₁ l₂ : List Nat) (hp : l₁.Perm l₂) (hn : l₁.Nodup) (j : Nat) :
    (mirpRun m freqs pick strict (l₁.flatMap fun k => [.get k, .act k (.heur high)])).slot j
      = (mirpRun m freqs pick strict (l₂.flatMap fun k => [.get k, .act k (.heur high)])).slot j := by
  refine mirp_order_independent m freqs pick strict _ _ (fun i => ?_) j
  rw [em_filter_getHeur high l₁ hn i, em_filter_getHeur high l₂ (hp.nodup_iff.1 hn) i]
  simp only [hp.mem_iff]

/-- concrete tiny MIRP: the arc-based formulation after "arc getter, sequence getter, arc heuristic" equals the
    one after "sequence getter, arc getter, arc heuristic" — by the theorem, not by evaluation -/
example (freqs : List Rat) (pick : Nat → List Nat → Nat) (strict : Bool) :
    (mirpRun (Mirp.new 1 2) freqs pick strict [.get 0, .get 2, .act 0 (.heur 10)]).slot 0
      = (mirpRun (Mirp.new 1 2) freqs pick strict [.get 2, .get 0, .act 0 (.heur 10)]).slot 0 := by
  refine mirp_order_independent _ _ _ _ _ _ (fun j => ?_) 0
  rcases j with _ | _ | _ | j <;> simp [WOp.target]

end Vrp.C16
