import VrpModel.Store
import VrpModel.MirpGetters

/-!
# C16 — Formulations are isolated from their source graph and from each other (object-store level)

The theorems are about the explicit object store of `VrpModel/Store.lean`; they certify the dataflow
(who reads / writes which cell).  That Python's `copy.deepcopy` yields disjoint objects is outside the
model and is carried by the identity-disjointness test of the correspondence run.
-/
namespace Vrp.C16
open Vrp

variable {σ α : Type} (mk : Nat → Graph → σ) (act : σ → α → σ)

/-- **the source is never changed**, whatever is constructed, made feasible or queried, in any order -/
theorem source_unchanged (w : World σ) (ops : List (WOp α)) : (World.run mk act w ops).source = w.source := by
  induction ops generalizing w with
  | nil => rfl
  | cons op ops ih =>
    simp only [World.run, List.foldl_cons] at ih ⊢
    rw [ih]
    cases op with
    | get k => simp only [World.step]; split <;> rfl
    | act k a => simp only [World.step]; split <;> rfl

theorem step_other_slot (w : World σ) (op : WOp α) (j : Nat) (h : op.target ≠ j) :
    (World.step mk act w op).slot j = w.slot j := by
  cases op with
  | get k =>
    simp only [WOp.target] at h
    simp only [World.step]; split
    · rfl
    · simp [Ne.symm h]
  | act k a =>
    simp only [WOp.target] at h
    simp only [World.step]; split
    · rfl
    · simp [Ne.symm h]

theorem step_source (w : World σ) (op : WOp α) : (World.step mk act w op).source = w.source := by
  cases op with
  | get k => simp only [World.step]; split <;> rfl
  | act k a => simp only [World.step]; split <;> rfl

/-- one step on slot `j` only depends on the source and on slot `j` -/
theorem step_slot_congr (w w' : World σ) (op : WOp α) (j : Nat) (hs : w.source = w'.source)
    (hj : w.slot j = w'.slot j) :
    (World.step mk act w op).slot j = (World.step mk act w' op).slot j := by
  by_cases ht : op.target = j
  · cases op with
    | get k =>
      simp only [WOp.target] at ht; subst ht
      simp only [World.step]
      rw [← hj]
      cases h : w.slot k <;> simp [h, hs, hj]
      · rw [← hj, h]
    | act k a =>
      simp only [WOp.target] at ht; subst ht
      simp only [World.step]
      rw [← hj]
      cases h : w.slot k <;> simp [h, hj]
      · rw [← hj, h]
  · rw [step_other_slot mk act w op j ht, step_other_slot mk act w' op j ht, hj]

/-- **non-interference**: the state of formulation `j` after any history depends only on the source and on the
    calls addressed to `j` (all other calls can be dropped) -/
theorem non_interference (w : World σ) (ops : List (WOp α)) (j : Nat) :
    (World.run mk act w ops).slot j = (World.run mk act w (ops.filter fun op => op.target = j)).slot j := by
  suffices ∀ (w w' : World σ), w.source = w'.source → w.slot j = w'.slot j →
      (World.run mk act w ops).slot j = (World.run mk act w' (ops.filter fun op => op.target = j)).slot j from
    this w w rfl rfl
  induction ops with
  | nil => intro w w' _ hj; simpa [World.run] using hj
  | cons op ops ih =>
    intro w w' hs hj
    simp only [World.run, List.foldl_cons] at ih ⊢
    by_cases ht : op.target = j
    · simp only [List.filter_cons, ht, decide_true, if_true, List.foldl_cons]
      exact ih _ _ (by rw [step_source, step_source, hs]) (step_slot_congr mk act w w' op j hs hj)
    · simp only [List.filter_cons, ht, decide_false]
      exact ih _ _ (by rw [step_source, hs]) (by rw [step_other_slot mk act w op j ht, hj])

/-- **order independence**: two histories that contain the same calls per formulation (in the same relative
    order for each formulation, arbitrarily interleaved across formulations — e.g. the 6 request orders of the
    three MIRP getters) produce identical formulations -/
theorem order_independent (w : World σ) (ops ops' : List (WOp α))
    (h : ∀ j, ops.filter (fun op => op.target = j) = ops'.filter (fun op => op.target = j)) (j : Nat) :
    (World.run mk act w ops).slot j = (World.run mk act w ops').slot j := by
  rw [non_interference mk act w ops j, non_interference mk act w ops' j, h j]

/-- **requesting a formulation twice returns the same object** (the second request changes nothing) -/
theorem getter_idempotent (w : World σ) (k : Nat) :
    World.step mk act (World.step mk act w (.get k)) (.get k) = World.step mk act w (.get k) := by
  simp only [World.step]
  cases h : w.slot k with
  | some s => simp [h]
  | none => simp [h]

end Vrp.C16

/-!
## Instantiation with the three modelled MIRP formulations

The generic theorems above are stated for an arbitrary constructor `mk` and effect `act`.  Here they are
instantiated with the modelled getters of `VrpModel/MirpGetters.lean` (slot 0 = arc-based, slot 1 = path-based,
slot ≥ 2 = sequence-based) and the modelled `make_feasible` heuristics of `VrpModel/Heuristics.lean`.
-/
namespace Vrp.C16
open Vrp

/-- the state of one formulation object -/
inductive Form where
  | arc (I : ArcInst)
  | path (P : PathInst)
  | seq (I : SeqInst)

/-- a call on a formulation object: `make_feasible(high)` or any read-only query -/
inductive FAct where
  | heur (high : Rat)
  | query

/-- the three MIRP getters as constructors from (a copy of) the source graph `src`: slot 0 `get_arc_based`,
    slot 1 `get_path_based` (scripted sampler `pick`, port frequencies `freqs`; when `estimate_high_cost`
    raises, the empty pool on `src`), slot ≥ 2 `get_sequence_based(strict)` (when it raises, the bare
    `SeqInst.new src strict`) -/
def mkForm (m : Mirp) (freqs : List Rat) (pick : Nat → List Nat → Nat) (strict : Bool) : Nat → Graph → Form
  | 0, src => .arc ({ m with g := src } : Mirp).getArcBased
  | 1, src => .path ((({ m with g := src } : Mirp).getPathBased freqs pick).getD { g := src })
  | _ + 2, src => .seq ((({ m with g := src } : Mirp).getSeqBased strict).getD (SeqInst.new src strict))

/-- effect of a call: `heur high` runs the formulation's own `make_feasible` (an error leaves the object
    unchanged; the returned solution vector is not part of the object state), `query` changes nothing.
    `pick` is the scripted sampler that the path-based heuristic takes. -/
def actForm (pick : Nat → List Nat → Nat) : Form → FAct → Form
  | .arc I, .heur high => match I.makeFeasible high with | .ok (J, _) => .arc J | .error _ => .arc I
  | .path P, .heur high => match P.makeFeasible high pick with | .ok (Q, _) => .path Q | .error _ => .path P
  | .seq I, .heur high => match I.makeFeasible high with | .ok (J, _) => .seq J | .error _ => .seq I
  | f, .query => f

/-- the world of a freshly built MIRP: its source graph, no formulation requested yet -/
def mirpWorld (m : Mirp) : World Form := { source := m.g, slot := fun _ => none }

/-- run a history of getter requests and calls on the MIRP `m` -/
def mirpRun (m : Mirp) (freqs : List Rat) (pick : Nat → List Nat → Nat) (strict : Bool)
    (ops : List (WOp FAct)) : World Form :=
  World.run (mkForm m freqs pick strict) (actForm pick) (mirpWorld m) ops

variable (m : Mirp) (freqs : List Rat) (pick : Nat → List Nat → Nat) (strict : Bool)

/-!
### the `mirp_*` statements

Stated plainly: these are instances of the generic object-store lemmas, which hold for every constructor and action;
their content is the shape of the store (each call reads the source and writes only its own slot), which the
differential test ties to the code.  Nothing in their proofs looks inside `mkForm` / `actForm`: they would hold
verbatim for any other getters and heuristics.  What is specific to the MIRP is (a) that the slots are the modelled getters
applied to the MIRP's own graph (`mirp_get_slots`) and (b) the concrete, non-degenerate instance at the end of this file
(`exMirp_order_and_source`, `exMirp_slot_real`, `exMirp'_isolated`), where the compared slot is evaluated and is a real
formulation object.
-/

/-- **the MIRP's source graph is never changed** by requesting the three formulations, running their
    heuristics or querying them, in any order (instance of `source_unchanged`) -/
theorem mirp_source_unchanged (ops : List (WOp FAct)) : (mirpRun m freqs pick strict ops).source = m.g :=
  source_unchanged (mkForm m freqs pick strict) (actForm pick) (mirpWorld m) ops

/-- **non-interference of the MIRP formulations**: the state of formulation `j` after any history depends only
    on the source and on the calls addressed to `j` (instance of `non_interference`) -/
theorem mirp_non_interference (ops : List (WOp FAct)) (j : Nat) :
    (mirpRun m freqs pick strict ops).slot j
      = (mirpRun m freqs pick strict (ops.filter fun op => op.target = j)).slot j :=
  non_interference (mkForm m freqs pick strict) (actForm pick) (mirpWorld m) ops j

/-- **order independence of the MIRP getters**: two histories with the same per-slot sub-histories (e.g. the six
    request orders of the three getters, each followed by its own heuristic run) give the same three
    formulations (instance of `order_independent`) -/
theorem mirp_order_independent (ops₁ ops₂ : List (WOp FAct))
    (h : ∀ j, ops₁.filter (fun op => op.target = j) = ops₂.filter (fun op => op.target = j)) :
    ∀ j, (mirpRun m freqs pick strict ops₁).slot j = (mirpRun m freqs pick strict ops₂).slot j :=
  order_independent (mkForm m freqs pick strict) (actForm pick) (mirpWorld m) ops₁ ops₂ h

/-- **requesting a MIRP formulation twice returns the same object**, after any history (instance of
    `getter_idempotent`) -/
theorem mirp_getter_idempotent (ops : List (WOp FAct)) (k : Nat) :
    mirpRun m freqs pick strict (ops ++ [.get k, .get k]) = mirpRun m freqs pick strict (ops ++ [.get k]) := by
  simp only [mirpRun, World.run, List.foldl_append, List.foldl_cons, List.foldl_nil]
  exact getter_idempotent _ _ _ k

/-- the three slots really are the three modelled getters applied to the MIRP itself (not to some other graph) -/
theorem mirp_get_slots :
    (mirpRun m freqs pick strict [.get 0]).slot 0 = some (.arc m.getArcBased) ∧
    (mirpRun m freqs pick strict [.get 1]).slot 1
      = some (.path ((m.getPathBased freqs pick).getD { g := m.g })) ∧
    (mirpRun m freqs pick strict [.get 2]).slot 2
      = some (.seq ((m.getSeqBased strict).getD (SeqInst.new m.g strict))) :=
  ⟨rfl, rfl, rfl⟩

/-- per-slot sub-history of "request each formulation of `l` and run its heuristic, in the order of `l`" -/
theorem em_filter_getHeur (high : Rat) (l : List Nat) (hn : l.Nodup) (j : Nat) :
    (l.flatMap fun k => [WOp.get k, WOp.act k (FAct.heur high)]).filter (fun op => op.target = j)
      = if j ∈ l then [WOp.get j, WOp.act j (FAct.heur high)] else [] := by
  induction l with
  | nil => simp
  | cons k l ih =>
    rw [List.nodup_cons] at hn
    rw [List.flatMap_cons, List.filter_append, ih hn.2]
    by_cases hkj : k = j
    · subst hkj
      simp [WOp.target, hn.1]
    · have hjk : ¬ j = k := fun h => hkj h.symm
      simp [WOp.target, hkj, hjk]

/-- **the six request orders**: requesting the formulations `l₁` (each request followed by that formulation's
    heuristic run) in any other order `l₂` gives the same formulations — in particular for the six orders of
    `[0, 1, 2]` (arc, path, sequence) -/
theorem mirp_request_order_irrelevant (high : Rat) (l₁ l₂ : List Nat) (hp : l₁.Perm l₂) (hn : l₁.Nodup) (j : Nat) :
    (mirpRun m freqs pick strict (l₁.flatMap fun k => [.get k, .act k (.heur high)])).slot j
      = (mirpRun m freqs pick strict (l₂.flatMap fun k => [.get k, .act k (.heur high)])).slot j := by
  refine mirp_order_independent m freqs pick strict _ _ (fun i => ?_) j
  rw [em_filter_getHeur high l₁ hn i, em_filter_getHeur high l₂ (hp.nodup_iff.1 hn) i]
  simp only [hp.mem_iff]

/-- concrete tiny MIRP (no port, no arc): the arc-based formulation after "arc getter, sequence getter, arc heuristic"
    equals the one after "sequence getter, arc getter, arc heuristic" — by the theorem, not by evaluation -/
example (freqs : List Rat) (pick : Nat → List Nat → Nat) (strict : Bool) :
    (mirpRun (Mirp.new 1 2) freqs pick strict [.get 0, .get 2, .act 0 (.heur 10)]).slot 0
      = (mirpRun (Mirp.new 1 2) freqs pick strict [.get 2, .get 0, .act 0 (.heur 10)]).slot 0 := by
  refine mirp_order_independent _ _ _ _ _ _ (fun j => ?_) 0
  rcases j with _ | _ | _ | j <;> simp [WOp.target]

/-! ## a non-degenerate instance

A MIRP with ports and arcs, built by the modelled helper calls: cargo size 1, horizon 4, one supply port `S` (rate 1)
and one demand port `D` (rate −1) with three visits each, `add_travel_arcs` (vessel speed 1), `add_exit_arcs`,
`add_entry_arcs` (one dummy pre-loaded vessel) — the op list of the non-vacuity example of `Props/C12.lean`.  The source
graph has 8 nodes and 21 arcs.  Two interleavings of the three getter requests and one run of the arc heuristic are
compared BY THE THEOREMS; that the compared slot holds a real formulation object (an `ArcInst` on that graph with its
time grid) is shown BY EVALUATION. -/

/-- the helper calls of the non-vacuity example of `Props/C12.lean` -/
def exOps : List MOp :=
  [.port "S" 0 1 2, .port "D" 2 (-1) 2, .travel 1 1 [("S", "D", 1)] [("S", 3)] [("D", 5)], .exit 1 0, .entry 3 0 0]

/-- the MIRP built by `exOps` on `Mirp.new 1 4` -/
def exMirp : Mirp := (Mirp.build 10 (Mirp.new 1 4) exOps).getD (Mirp.new 1 4)

theorem build_getD (ops : List MOp) (h : (Mirp.build 10 (Mirp.new 1 4) ops).isSome = true) :
    Mirp.build 10 (Mirp.new 1 4) ops = some ((Mirp.build 10 (Mirp.new 1 4) ops).getD (Mirp.new 1 4)) := by
  cases hb : Mirp.build 10 (Mirp.new 1 4) ops with
  | none => rw [hb] at h; exact absurd h (by simp)
  | some m => rfl

/-- the build succeeds and `exMirp` is its result: one supply port, one demand port, 8 nodes, 21 arcs (travel, exit and
    entry arcs among them) -/
theorem exMirp_built :
    Mirp.build 10 (Mirp.new 1 4) exOps = some exMirp ∧ exMirp.supply = ["S"] ∧ exMirp.demand = ["D"] ∧
    exMirp.g.nodes.length = 8 ∧ exMirp.g.arcs.length = 21 ∧
    exMirp.g.hasArc 1 4 = true ∧ exMirp.g.hasArc 1 0 = true ∧ exMirp.g.hasArc 0 7 = true :=
  ⟨build_getD exOps (by decide +kernel), by decide +kernel⟩

def exHist₁ : List (WOp FAct) := [.get 0, .get 2, .act 0 (.heur 10), .get 1]
def exHist₂ : List (WOp FAct) := [.get 1, .get 2, .get 0, .act 0 (.heur 10)]

theorem exHist_filter (j : Nat) :
    exHist₁.filter (fun op => op.target = j) = exHist₂.filter (fun op => op.target = j) := by
  rcases j with _ | _ | _ | j <;> simp [exHist₁, exHist₂, WOp.target]

/-- **by the theorems**: on the built MIRP the arc-based slot after "arc getter, sequence getter, arc heuristic, path
    getter" equals the one after "path getter, sequence getter, arc getter, arc heuristic" (`mirp_order_independent`), and
    the source graph is the MIRP's graph after both histories (`mirp_source_unchanged`), for every sampler script, port
    frequencies and strictness -/
theorem exMirp_order_and_source (freqs : List Rat) (pick : Nat → List Nat → Nat) (strict : Bool) :
    (mirpRun exMirp freqs pick strict exHist₁).slot 0 = (mirpRun exMirp freqs pick strict exHist₂).slot 0 ∧
    (mirpRun exMirp freqs pick strict exHist₁).source = exMirp.g ∧
    (mirpRun exMirp freqs pick strict exHist₂).source = exMirp.g :=
  ⟨mirp_order_independent exMirp freqs pick strict exHist₁ exHist₂ exHist_filter 0,
   mirp_source_unchanged exMirp freqs pick strict exHist₁, mirp_source_unchanged exMirp freqs pick strict exHist₂⟩

/-- what the arc slot of a MIRP holds after a getter request and one heuristic run addressed to it, whatever else was
    requested in between (`mirp_non_interference`, then unfolding) -/
theorem arc_slot_after_heur (m : Mirp) (freqs : List Rat) (pick : Nat → List Nat → Nat) (strict : Bool) (high : Rat)
    (ops : List (WOp FAct)) (h : ops.filter (fun op => op.target = 0) = [.get 0, .act 0 (.heur high)]) :
    (mirpRun m freqs pick strict ops).slot 0
      = some (.arc (match m.getArcBased.makeFeasible high with | .ok (J, _) => J | .error _ => m.getArcBased)) := by
  rw [mirp_non_interference, h]
  show some (actForm pick (.arc m.getArcBased) (.heur high)) = _
  simp only [actForm]
  cases m.getArcBased.makeFeasible high with
  | ok p => rfl
  | error e => rfl

/-- **by evaluation**: that slot is a real formulation object — `some (Form.arc I)` with the MIRP's 8 nodes, its 21 arcs
    (≥ 4) and the time grid `0 … 4` (69 decision tuples).  (On this instance `make_feasible(10)` raises — the exit arcs
    take one time unit and the last visits cannot return within the horizon — so the object is the one the getter built.) -/
theorem exMirp_slot_real (freqs : List Rat) (pick : Nat → List Nat → Nat) (strict : Bool) :
    ∃ I, (mirpRun exMirp freqs pick strict exHist₁).slot 0 = some (Form.arc I) ∧ I.g.arcs.length ≥ 4 ∧
      I.g.arcs.length = 21 ∧ I.g.nodes.length = 8 ∧ I.T = [0, 1, 2, 3, 4] ∧ I.vars.length = 69 := by
  refine ⟨_, arc_slot_after_heur exMirp freqs pick strict 10 exHist₁ (exHist_filter 0 ▸ rfl), ?_⟩
  decide +kernel

/-- the same MIRP with exit time 0 and at most one dummy vessel (`add_exit_arcs(0, 0)`, `add_entry_arcs(1, 0, 0)`): here
    the arc heuristic SUCCEEDS and adds dummy arcs -/
def exOps' : List MOp :=
  [.port "S" 0 1 2, .port "D" 2 (-1) 2, .travel 1 1 [("S", "D", 1)] [("S", 3)] [("D", 5)], .exit 0 0, .entry 1 0 0]

def exMirp' : Mirp := (Mirp.build 10 (Mirp.new 1 4) exOps').getD (Mirp.new 1 4)

/-- **isolation, on an instance where the heuristic changes its formulation**: after either history the arc-based slot is
    one and the same formulation object with 24 arcs — the 18 arcs of the MIRP plus 6 dummy arcs added by
    `make_feasible(10)` inside the formulation's own copy — while the source graph is still the MIRP's graph with 18 arcs
    (equalities by `mirp_order_independent` / `mirp_source_unchanged`, sizes by evaluation) -/
theorem exMirp'_isolated (freqs : List Rat) (pick : Nat → List Nat → Nat) (strict : Bool) :
    Mirp.build 10 (Mirp.new 1 4) exOps' = some exMirp' ∧
    (mirpRun exMirp' freqs pick strict exHist₁).slot 0 = (mirpRun exMirp' freqs pick strict exHist₂).slot 0 ∧
    (mirpRun exMirp' freqs pick strict exHist₂).source = exMirp'.g ∧ exMirp'.g.arcs.length = 18 ∧
    ∃ I, (mirpRun exMirp' freqs pick strict exHist₂).slot 0 = some (Form.arc I) ∧ I.g.arcs.length = 24 ∧
      I.g.nodes = exMirp'.g.nodes := by
  have ho := mirp_order_independent exMirp' freqs pick strict exHist₁ exHist₂ exHist_filter 0
  refine ⟨build_getD exOps' (by decide +kernel), ho, mirp_source_unchanged exMirp' freqs pick strict exHist₂,
    by decide +kernel, _, ho ▸ arc_slot_after_heur exMirp' freqs pick strict 10 exHist₁ (exHist_filter 0 ▸ rfl), ?_⟩
  decide +kernel

end Vrp.C16
