import VrpProofs.Props.C16
/-!
# C16 (second part): requests that raise

`Props/C16.lean` treats getters as total.  A MIRP getter can raise while it configures the new object (no travel
arc of positive time, a heuristic that fails).  `World.stepP` models the repaired getters (fix ff3f4a7: the object
is kept only once it is completely built), `World.stepPinned` the pinned ones (stored first, configured afterwards).
-/
namespace Vrp.C16
open Vrp

variable {σ α : Type} (mk? : Nat → Graph → Option σ) (act : σ → α → σ)

/-- **a request that raises changes nothing** -/
theorem stepP_raise_unchanged (w : World σ) (op : WOp α) (h : (World.stepP mk? act w op).2 = true) :
    (World.stepP mk? act w op).1 = w := by
  cases op with
  | get k =>
    simp only [World.stepP] at h ⊢
    cases hs : w.slot k with
    | some s => simp [hs] at h
    | none =>
      cases hm : mk? k w.source with
      | some s => simp [hs, hm] at h
      | none => simp [hs, hm]
  | act k a =>
    simp only [World.stepP] at h
    cases hs : w.slot k <;> simp [hs] at h

/-- … so the same request again raises again (nothing half-built is returned) -/
theorem stepP_raise_again (w : World σ) (k : Nat) (h : (World.stepP mk? act w (.get k)).2 = true) :
    World.stepP mk? act (World.stepP mk? act w (.get k)).1 (.get k) = (w, true) := by
  have hw := stepP_raise_unchanged mk? act w (.get k) h
  rw [hw]
  have : World.stepP mk? act w (.get k) = ((World.stepP mk? act w (.get k)).1, (World.stepP mk? act w (.get k)).2) := rfl
  rw [this, hw, h]

/-- only a first request can raise -/
theorem stepP_raise_only_fresh_get (w : World σ) (op : WOp α) (h : (World.stepP mk? act w op).2 = true) :
    ∃ k, op = .get k ∧ w.slot k = none ∧ mk? k w.source = none := by
  cases op with
  | get k =>
    refine ⟨k, rfl, ?_⟩
    simp only [World.stepP] at h
    cases hs : w.slot k with
    | some s => simp [hs] at h
    | none =>
      cases hm : mk? k w.source with
      | some s => simp [hs, hm] at h
      | none => exact ⟨rfl, rfl⟩
  | act k a =>
    simp only [World.stepP] at h
    cases hs : w.slot k <;> simp [hs] at h

/-- total getters: `stepP` is `step` -/
theorem stepP_total (mk : Nat → Graph → σ) (w : World σ) (op : WOp α) :
    World.stepP (fun k g => some (mk k g)) act w op = (World.step mk act w op, false) := by
  cases op with
  | get k => simp only [World.stepP, World.step]; cases w.slot k <;> rfl
  | act k a => simp only [World.stepP, World.step]; cases w.slot k <;> rfl

theorem stepP_source (w : World σ) (op : WOp α) : (World.stepP mk? act w op).1.source = w.source := by
  cases op with
  | get k =>
    simp only [World.stepP]
    cases w.slot k with
    | some s => rfl
    | none => cases mk? k w.source <;> rfl
  | act k a => simp only [World.stepP]; cases w.slot k <;> rfl

/-- **the source is never changed**, also by requests that raise -/
theorem runP_source_unchanged (w : World σ) (ops : List (WOp α)) : (World.runP mk? act w ops).source = w.source := by
  induction ops generalizing w with
  | nil => rfl
  | cons op ops ih =>
    simp only [World.runP, List.foldl_cons] at ih ⊢
    rw [ih, stepP_source]

theorem stepP_other_slot (w : World σ) (op : WOp α) (j : Nat) (h : op.target ≠ j) :
    (World.stepP mk? act w op).1.slot j = w.slot j := by
  cases op with
  | get k =>
    simp only [WOp.target] at h
    simp only [World.stepP]
    cases w.slot k with
    | some s => rfl
    | none =>
      cases mk? k w.source with
      | some s => simp [Ne.symm h]
      | none => rfl
  | act k a =>
    simp only [WOp.target] at h
    simp only [World.stepP]
    cases w.slot k with
    | none => rfl
    | some s => simp [Ne.symm h]

theorem stepP_slot_congr (w w' : World σ) (op : WOp α) (j : Nat) (hs : w.source = w'.source)
    (hj : w.slot j = w'.slot j) :
    (World.stepP mk? act w op).1.slot j = (World.stepP mk? act w' op).1.slot j := by
  by_cases ht : op.target = j
  · cases op with
    | get k =>
      simp only [WOp.target] at ht; subst ht
      simp only [World.stepP]
      rw [← hj, ← hs]
      cases h : w.slot k with
      | some s => simpa [h] using hj
      | none =>
        cases hm : mk? k w.source with
        | some s => simp
        | none => simpa [h] using hj
    | act k a =>
      simp only [WOp.target] at ht; subst ht
      simp only [World.stepP]
      rw [← hj]
      cases h : w.slot k with
      | none => simpa [h] using hj
      | some s => simp
  · rw [stepP_other_slot mk? act w op j ht, stepP_other_slot mk? act w' op j ht, hj]

/-- **non-interference with raising requests**: formulation `j` after any history (in which any request may have
    raised) depends only on the source and on the calls addressed to `j` -/
theorem runP_non_interference (w : World σ) (ops : List (WOp α)) (j : Nat) :
    (World.runP mk? act w ops).slot j = (World.runP mk? act w (ops.filter fun op => op.target = j)).slot j := by
  suffices ∀ (w w' : World σ), w.source = w'.source → w.slot j = w'.slot j →
      (World.runP mk? act w ops).slot j = (World.runP mk? act w' (ops.filter fun op => op.target = j)).slot j from
    this w w rfl rfl
  induction ops with
  | nil => intro w w' _ hj; simpa [World.runP] using hj
  | cons op ops ih =>
    intro w w' hs hj
    simp only [World.runP, List.foldl_cons] at ih ⊢
    by_cases ht : op.target = j
    · simp only [List.filter_cons, ht, decide_true, if_true, List.foldl_cons]
      exact ih _ _ (by rw [stepP_source, stepP_source, hs]) (stepP_slot_congr mk? act w w' op j hs hj)
    · simp only [List.filter_cons, ht, decide_false]
      exact ih _ _ (by rw [stepP_source, hs]) (by rw [stepP_other_slot mk? act w op j ht, hj])

/-- hence the request ORDER is irrelevant also when some requests raise -/
theorem runP_order_independent (w : World σ) (ops ops' : List (WOp α))
    (h : ∀ j, ops.filter (fun op => op.target = j) = ops'.filter (fun op => op.target = j)) (j : Nat) :
    (World.runP mk? act w ops).slot j = (World.runP mk? act w ops').slot j := by
  rw [runP_non_interference mk? act w ops j, runP_non_interference mk? act w ops' j, h j]

/-- **the pinned getters violate the property**: after a request that raised, the same request again returns
    normally — with the half-configured object the failed one left behind -/
theorem pinned_failed_request_leaves_object (half : Nat → Graph → σ) (w : World σ) (k : Nat)
    (hs : w.slot k = none) (hm : mk? k w.source = none) :
    (World.stepPinned mk? half act w (.get k)).2 = true ∧
    (World.stepPinned mk? half act w (.get k)).1.slot k = some (half k w.source) ∧
    (World.stepPinned mk? half act (World.stepPinned mk? half act w (.get k)).1 (.get k)).2 = false := by
  simp [World.stepPinned, hs, hm]

/-! ## non-vacuity: a getter that raises for slot 1 -/

def nvMk? : Nat → Graph → Option Nat := fun k _ => if k = 1 then none else some k
def nvW : World Nat := { source := { nodes := [], arcs := [], cap := none, init := none }, slot := fun _ => none }

example : (World.stepP nvMk? (fun s (_ : Unit) => s) nvW (.get 1)).2 = true := by decide
example : (World.stepP nvMk? (fun s (_ : Unit) => s) nvW (.get 2)).2 = false := by decide
example : (World.runP nvMk? (fun s (_ : Unit) => s + 1) nvW [.get 1, .get 2, .act 2 (), .get 1]).slot 2 = some 3 := by decide
example : (World.runP nvMk? (fun s (_ : Unit) => s + 1) nvW [.get 1, .get 2, .act 2 (), .get 1]).slot 1 = none := by decide
example : (World.stepPinned nvMk? (fun _ _ => 99) (fun s (_ : Unit) => s) nvW (.get 1)).1.slot 1 = some 99 := by decide

end Vrp.C16

/-!
## instantiation with the modelled MIRP getters (no `getD`: a getter that raises keeps nothing)

`Props/C16.lean`'s `mkForm` totalises the getters with `.getD` (written before fix ff3f4a7, when a raising getter left
the bare object behind).  Here the getters are used as they are: `getSeqBased` / `getPathBased` answer `none` when the
Python raises (no travel arc of positive time / no arc or port for the high-cost estimate).
-/
namespace Vrp.C16
open Vrp

/-- the three MIRP getters, partial -/
def mkForm? (m : Mirp) (freqs : List Rat) (pick : Nat → List Nat → Nat) (strict : Bool) : Nat → Graph → Option Form
  | 0, src => some (.arc ({ m with g := src } : Mirp).getArcBased)
  | 1, src => (({ m with g := src } : Mirp).getPathBased freqs pick).map .path
  | _ + 2, src => (({ m with g := src } : Mirp).getSeqBased strict).map .seq

/-- run a history of getter requests (any of which may raise) and calls on the MIRP `m` -/
def mirpRunP (m : Mirp) (freqs : List Rat) (pick : Nat → List Nat → Nat) (strict : Bool)
    (ops : List (WOp FAct)) : World Form :=
  World.runP (mkForm? m freqs pick strict) (actForm pick) (mirpWorld m) ops

variable (m : Mirp) (freqs : List Rat) (pick : Nat → List Nat → Nat) (strict : Bool)

theorem mirpP_source_unchanged (ops : List (WOp FAct)) : (mirpRunP m freqs pick strict ops).source = m.g :=
  runP_source_unchanged (mkForm? m freqs pick strict) (actForm pick) (mirpWorld m) ops

theorem mirpP_non_interference (ops : List (WOp FAct)) (j : Nat) :
    (mirpRunP m freqs pick strict ops).slot j
      = (mirpRunP m freqs pick strict (ops.filter fun op => op.target = j)).slot j :=
  runP_non_interference (mkForm? m freqs pick strict) (actForm pick) (mirpWorld m) ops j

theorem mirpP_order_independent (ops₁ ops₂ : List (WOp FAct))
    (h : ∀ j, ops₁.filter (fun op => op.target = j) = ops₂.filter (fun op => op.target = j)) :
    ∀ j, (mirpRunP m freqs pick strict ops₁).slot j = (mirpRunP m freqs pick strict ops₂).slot j :=
  runP_order_independent (mkForm? m freqs pick strict) (actForm pick) (mirpWorld m) ops₁ ops₂ h

/-- the sequence-based request raises exactly when the MIRP's graph has no arc of positive travel time -/
theorem mirp_seq_request_raises_iff :
    (World.stepP (mkForm? m freqs pick strict) (actForm pick) (mirpWorld m) (.get 2)).2 = true ↔
      m.getSeqBased strict = none := by
  have hm : ({ m with g := m.g } : Mirp) = m := rfl
  simp only [World.stepP, mirpWorld, mkForm?, hm]
  cases m.getSeqBased strict <;> simp

/-- a MIRP with ports but no travel arc (only exit arcs of time 0): the sequence getter raises, the arc getter works -/
def exOpsNoTravel : List MOp :=
  [.port "S" (1/2) 1 2, .port "D" (3/2) (-1) 2, .exit 0 1]
def exMirpNoTravel : Mirp := (Mirp.build 10 (Mirp.new 1 4) exOpsNoTravel).getD (Mirp.new 1 4)

/-- **non-vacuity with real getters**: on `exMirpNoTravel` the sequence-based request raises and leaves no object, asked again
    it raises again; the arc-based request before or after it yields the same formulation; the source is untouched -/
theorem exMirpNoTravel_raising_request (freqs : List Rat) (pick : Nat → List Nat → Nat) (strict : Bool) :
    exMirpNoTravel.g.arcs.length ≠ 0 ∧ exMirpNoTravel.getSeqBased strict = none ∧
    (World.stepP (mkForm? exMirpNoTravel freqs pick strict) (actForm pick) (mirpWorld exMirpNoTravel) (.get 2)).2 = true ∧
    (mirpRunP exMirpNoTravel freqs pick strict [.get 2, .get 0, .get 2]).slot 2 = none ∧
    (mirpRunP exMirpNoTravel freqs pick strict [.get 2, .get 0, .get 2]).slot 0
      = (mirpRunP exMirpNoTravel freqs pick strict [.get 0]).slot 0 ∧
    (mirpRunP exMirpNoTravel freqs pick strict [.get 2, .get 0, .get 2]).source = exMirpNoTravel.g := by
  have hnone : exMirpNoTravel.getSeqBased strict = none := by
    cases strict <;> decide +kernel
  refine ⟨by decide +kernel, hnone, (mirp_seq_request_raises_iff _ _ _ _).mpr hnone, ?_, ?_, mirpP_source_unchanged _ _ _ _ _⟩
  · rw [mirpP_non_interference]
    have hf : ([WOp.get 2, .get 0, .get 2] : List (WOp FAct)).filter (fun op => op.target = 2) = [.get 2, .get 2] := by simp [List.filter, WOp.target]
    rw [hf]
    have hm : ({ exMirpNoTravel with g := exMirpNoTravel.g } : Mirp) = exMirpNoTravel := rfl
    simp [mirpRunP, World.runP, World.stepP, mirpWorld, mkForm?, hm, hnone]
  · rw [mirpP_non_interference]
    have hf : ([WOp.get 2, .get 0, .get 2] : List (WOp FAct)).filter (fun op => op.target = 0) = [.get 0] := by simp [List.filter, WOp.target]
    rw [hf]

end Vrp.C16
