import VrpModel.Num

namespace Vrp.C17

/-- placeholder until the dataflow model is merged -/
theorem placeholder_true : True := trivial

end Vrp.C17
