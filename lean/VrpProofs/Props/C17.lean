import VrpModel.Repro
import VrpProofs.Props.C18
import Mathlib.Data.List.Sort
import Mathlib.Data.List.Dedup

/-!
# C17 — Model construction is reproducible (dataflow level)

What is proved: the arc-based time grid does not depend on the iteration order of the set it is built from;
the path-based getter's result does not depend on the incoming generator state; equal explicit seeds give
equal random instances.  What is NOT modelled: hash randomisation, numpy's generator, scipy.stats,
separate interpreter processes — those are exercised by the subprocess test of the correspondence run.
-/
namespace Vrp.C17
open Vrp

theorem nodup_eraseDupsQ (l : List ℚ) : l.eraseDups.Nodup := by
  induction hn : l.length using Nat.strong_induction_on generalizing l with
  | _ n ih =>
    cases l with
    | nil => simp
    | cons a as =>
      rw [List.eraseDups_cons, List.nodup_cons]
      refine ⟨?_, ?_⟩
      · simp [List.mem_eraseDups]
      · refine ih _ ?_ _ rfl
        subst hn
        exact Nat.lt_succ_of_le (List.length_filter_le _ _)

/-- two sorted lists with the same elements and no duplicates are equal -/
theorem sorted_nodup_ext (l₁ l₂ : List ℚ) (h₁ : l₁.Pairwise (· ≤ ·)) (h₂ : l₂.Pairwise (· ≤ ·))
    (n₁ : l₁.Nodup) (n₂ : l₂.Nodup) (h : ∀ x, x ∈ l₁ ↔ x ∈ l₂) : l₁ = l₂ := by
  have hp : l₁.Perm l₂ := (List.perm_ext_iff_of_nodup n₁ n₂).2 h
  exact List.Perm.eq_of_pairwise (fun a b _ _ hab hba => le_antisymm hab hba) h₁ h₂ hp

/-- **the time grid is independent of the iteration order of the set**: any two enumerations of the same set
    of points (with or without repetitions) give the same grid -/
theorem timeGrid_perm_invariant (l₁ l₂ : List ℚ) (h : ∀ x, x ∈ l₁ ↔ x ∈ l₂) : timeGrid l₁ = timeGrid l₂ := by
  unfold timeGrid dedup
  have s₁ := C18.sortRat_sorted_perm (l₁.eraseDups)
  have s₂ := C18.sortRat_sorted_perm (l₂.eraseDups)
  apply sorted_nodup_ext _ _ s₁.1 s₂.1
  · exact (s₁.2.nodup_iff).2 (nodup_eraseDupsQ _)
  · exact (s₂.2.nodup_iff).2 (nodup_eraseDupsQ _)
  · intro x
    rw [s₁.2.mem_iff, s₂.2.mem_iff, List.mem_eraseDups, List.mem_eraseDups]
    exact h x

/-- the grid is sorted and has no duplicate values (the hypotheses C05 / C18 need) -/
theorem timeGrid_sorted_nodup (l : List ℚ) : (timeGrid l).Pairwise (· ≤ ·) ∧ (timeGrid l).Nodup := by
  unfold timeGrid dedup
  have s := C18.sortRat_sorted_perm (l.eraseDups)
  exact ⟨s.1, (s.2.nodup_iff).2 (nodup_eraseDupsQ _)⟩

variable {Rng Out : Type} (M : RngModel Rng Out)

/-- **the path-based pool does not depend on the state of the global generator beforehand**.

    Audit note: this is an `rfl`-level statement, true by construction of the dataflow model: the getter's
    result is a function that does not take the incoming generator state as an argument (`getPathBased M r`
    discards `r` and reseeds).  The content is the shape of the model, which the subprocess test of the
    correspondence run ties to the code; no property of the generator is proved here. -/
theorem getPathBased_rng_independent (r₁ r₂ : Rng) : getPathBased M r₁ = getPathBased M r₂ := rfl

/-- **the random-instance generator reproduces the same instance for the same explicit seed** (with
    `reset_seed`, whatever was drawn before; and for a freshly constructed generator object).

    Audit note: this is an `rfl`-level statement, true by construction of the dataflow model: the sampled
    instance is a function of the seed only (the incoming state `r` is overwritten by the seeding before any
    draw).  The content is the shape of the model, which the subprocess test of the correspondence run ties
    to the code; no property of the generator is proved here. -/
theorem randomMirp_same_seed_same_instance (seed : ℕ) (r₁ r₂ : Rng) :
    randomMirp M seed true r₁ = randomMirp M seed true r₂ ∧ randomMirpFresh M seed r₁ = randomMirpFresh M seed r₂ :=
  ⟨rfl, rfl⟩

/-- non-vacuity: the same set given in two orders, with a repetition -/
example : timeGrid [3, 0, 2, 3, 1] = timeGrid [1, 2, 0, 3] := by decide +kernel

end Vrp.C17
