import VrpModel.ArcBased
import VrpModel.SeqBased
import VrpProofs.Props.C15

/-!
# C18 — Variable index maps enumerate exactly the admissible decisions
-/
namespace Vrp.C18
open Vrp

/-- `get_var_tuple_index` maps indices at or beyond `n` to nothing -/
theorem arc_tuple_none_of_ge (I : ArcInst) (k : ℕ) (h : I.numVars ≤ k) : I.varTuple k = none := by
  simp only [ArcInst.varTuple, ArcInst.numVars] at *
  exact List.getElem?_eq_none h

theorem seq_tuple_none_of_ge (I : SeqInst) (k : ℕ) (h : I.vars.length ≤ k) : I.varTuple k = none := by
  simp only [SeqInst.varTuple] at *
  exact List.getElem?_eq_none h

end Vrp.C18
