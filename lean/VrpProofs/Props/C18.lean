import VrpModel.ArcBased
import VrpModel.SeqBased
import VrpProofs.Props.C15
import VrpProofs.Lemmas.Enum

/-!
# C18 — Variable index maps enumerate exactly the admissible decisions
-/
namespace Vrp.C18
open Vrp

/-- `get_var_tuple_index` maps indices at or beyond `n` to nothing -/
theorem arc_tuple_none_of_ge (I : ArcInst) (k : ℕ) (h : I.numVars ≤ k) : I.varTuple k = none := by
  simp only [ArcInst.varTuple, ArcInst.numVars] at *
  exact List.getElem?_eq_none h

theorem seq_tuple_none_of_ge (I : SeqInst) (k : ℕ) (h : I.vars.length ≤ k) : I.varTuple k = none := by
  simp only [SeqInst.varTuple] at *
  exact List.getElem?_eq_none h


/-! ## property theorems -/

/-- `add_time_points` sorts: the result is ordered and a permutation of the input (any input order) -/
theorem sortRat_sorted_perm (l : List ℚ) : (sortRat l).Pairwise (· ≤ ·) ∧ (sortRat l).Perm l := by
  unfold sortRat
  induction l with
  | nil => simp
  | cons x xs ih =>
    simp only [List.foldr_cons]
    exact ⟨insertSorted_sorted x _ ih.1, (insertSorted_perm x _).trans (List.Perm.cons x ih.2)⟩

/-- on a sorted grid the `continue`/`break` scan selects exactly the grid points inside the window -/
theorem winLoop_sorted (T : List ℚ) (lo : ℚ) (hi : ERat) (hT : T.Pairwise (· ≤ ·)) :
    winLoop T lo hi = T.filter (fun s => decide (lo ≤ s) && leE s hi) := by
  exact winLoop_eq_filter T lo hi hT

/-- **arc-based: the enumerated tuples are exactly the admissible decisions** (existing arc, both times on
    the grid and inside the respective windows, departure + travel ≤ arrival) -/
theorem arc_vars_mem_iff_admissible (I : ArcInst) (hT : I.T.Pairwise (· ≤ ·)) (hg : C15.Inv I.g) (u : ATup) :
    u ∈ I.vars ↔ I.admissible u = true := by
  obtain ⟨i, s, j, t⟩ := u
  simp only [ArcInst.vars, List.mem_flatMap, List.mem_filterMap, winLoop_sorted _ _ _ hT, List.mem_filter,
    Bool.and_eq_true, decide_eq_true_eq]
  constructor
  · rintro ⟨⟨⟨i', j'⟩, a⟩, he, s', ⟨hs1, hs2, hs3⟩, t', ⟨ht1, ht2, ht3⟩, h⟩
    split_ifs at h with hlt
    simp only [Option.some.injEq, Prod.mk.injEq] at h
    obtain ⟨rfl, rfl, rfl, rfl⟩ := h
    have harc : I.g.arc? i' j' = some a := (dictGet_eq_some_iff _ hg.keysNodup _ _).2 he
    simp only [ArcInst.admissible, harc]
    simp [hs1, hs2, hs3, ht1, ht2, ht3, not_lt.1 hlt]
  · intro h
    unfold ArcInst.admissible at h
    simp only at h
    cases harc : I.g.arc? i j with
    | none => simp [harc] at h
    | some a =>
      simp only [harc, Bool.and_eq_true, decide_eq_true_eq] at h
      obtain ⟨⟨⟨⟨⟨⟨hs1, ht1⟩, hs2⟩, hs3⟩, ht2⟩, ht3⟩, hle⟩ := h
      have he : ((i, j), a) ∈ I.g.arcs := (dictGet_eq_some_iff _ hg.keysNodup _ _).1 harc
      exact ⟨((i, j), a), he, s, ⟨hs1, hs2, hs3⟩, t, ⟨ht1, ht2, ht3⟩, by simp [not_lt.2 hle]⟩

set_option linter.unusedVariables false in
/-- no tuple is enumerated twice (grid without duplicate values; sortedness `hT` is not needed for this) -/
theorem arc_vars_nodup (I : ArcInst) (hT : I.T.Pairwise (· ≤ ·)) (hTn : I.T.Nodup) (hg : C15.Inv I.g) :
    I.vars.Nodup := by
  unfold ArcInst.vars
  rw [List.nodup_flatMap]
  constructor
  · intro e _
    rw [List.nodup_flatMap]
    constructor
    · intro s _
      refine List.Nodup.filterMap ?_ (winLoop_nodup _ _ _ hTn)
      intro t t' b hb hb'
      simp only [Option.mem_def] at hb hb'
      split_ifs at hb hb'
      simp only [Option.some.injEq] at hb hb'
      rw [← hb'] at hb
      simp only [Prod.mk.injEq] at hb
      exact hb.2.2.2
    · refine List.Pairwise.imp ?_ (winLoop_nodup _ _ _ hTn)
      intro s s' hne u hu hu'
      simp only [List.mem_filterMap] at hu hu'
      obtain ⟨t, _, h⟩ := hu
      obtain ⟨t', _, h'⟩ := hu'
      split_ifs at h h'
      simp only [Option.some.injEq] at h h'
      rw [← h'] at h
      simp only [Prod.mk.injEq] at h
      exact hne h.2.1
  · refine List.Pairwise.imp ?_ (List.pairwise_map.1 hg.keysNodup)
    intro e e' hne u hu hu'
    simp only [List.mem_flatMap, List.mem_filterMap] at hu hu'
    obtain ⟨s, _, t, _, h⟩ := hu
    obtain ⟨s', _, t', _, h'⟩ := hu'
    split_ifs at h h'
    simp only [Option.some.injEq] at h h'
    rw [← h'] at h
    simp only [Prod.mk.injEq] at h
    exact hne (Prod.ext h.1 h.2.2.1)

/-- index → tuple and tuple → index lookups are mutual inverses -/
theorem arc_index_tuple_inverse (I : ArcInst) (hT : I.T.Pairwise (· ≤ ·)) (hTn : I.T.Nodup) (hg : C15.Inv I.g)
    (u : ATup) (k : ℕ) : I.varIndex u = some k ↔ I.varTuple k = some u := by
  exact idxOf_lookup_some_iff I.vars (arc_vars_nodup I hT hTn hg) u k

/-- inadmissible tuples map to nothing, admissible ones to an index below `n` -/
theorem arc_index_none_iff (I : ArcInst) (hT : I.T.Pairwise (· ≤ ·)) (hg : C15.Inv I.g) (u : ATup) :
    I.varIndex u = none ↔ I.admissible u = false := by
  have h1 : I.varIndex u = none ↔ u ∉ I.vars := idxOf_lookup_none_iff I.vars u
  rw [h1, arc_vars_mem_iff_admissible I hT hg u]
  simp

theorem arc_index_lt (I : ArcInst) (u : ATup) (k : ℕ) (h : I.varIndex u = some k) : k < I.numVars := by
  exact idxOf_lookup_lt I.vars u k h

/-- the six fixing rules say exactly: first and last position are fixed (start / end at the depot), position 1
    must be reachable from the depot, position `L−2` must be able to return to it -/
theorem seq_fixed_none_iff (I : SeqInst) (p n : ℕ) :
    I.fixed p n = none ↔ (p ≠ 0 ∧ p ≠ I.L - 1 ∧ (p = 1 → I.g.hasArc 0 n = true) ∧ (p = I.L - 2 → I.g.hasArc n 0 = true)) := by
  unfold SeqInst.fixed
  split_ifs <;> simp_all

/-- **sequence-based: the enumerated tuples are exactly the (vehicle, position, node) in range that no rule fixes** -/
theorem seq_vars_mem_iff (I : SeqInst) (u : STup) :
    u ∈ I.vars ↔ (u.1 < I.V ∧ u.2.1 < I.L ∧ u.2.2 < I.g.nodes.length ∧ I.fixed u.2.1 u.2.2 = none) := by
  obtain ⟨v, p, n⟩ := u
  simp only [SeqInst.vars, List.mem_flatMap, List.mem_range]
  constructor
  · rintro ⟨p', hp', n', hn', h⟩
    split_ifs at h with hf
    · simp at h
    · simp only [List.mem_map, List.mem_range, Prod.mk.injEq] at h
      obtain ⟨v', hv', rfl, rfl, rfl⟩ := h
      exact ⟨hv', hp', hn', by simpa using hf⟩
  · rintro ⟨hv, hp, hn, hf⟩
    refine ⟨p, hp, n, hn, ?_⟩
    simp [hf, hv]

theorem seq_vars_nodup (I : SeqInst) : I.vars.Nodup := by
  unfold SeqInst.vars
  rw [List.nodup_flatMap]
  constructor
  · intro p _
    rw [List.nodup_flatMap]
    constructor
    · intro n _
      split_ifs
      · exact List.nodup_nil
      · exact List.Nodup.map (fun v v' h => by simpa using h) List.nodup_range
    · refine List.Pairwise.imp ?_ (List.nodup_range (n := I.g.nodes.length))
      intro n n' hne u hu hu'
      beta_reduce at hu hu'
      split_ifs at hu hu' <;> simp only [List.mem_map, List.not_mem_nil] at hu hu'
      obtain ⟨v, _, h⟩ := hu
      obtain ⟨v', _, h'⟩ := hu'
      rw [← h'] at h
      simp only [Prod.mk.injEq] at h
      exact hne h.2.2
  · refine List.Pairwise.imp ?_ (List.nodup_range (n := I.L))
    intro p p' hne u hu hu'
    simp only [List.mem_flatMap] at hu hu'
    obtain ⟨n, _, hu⟩ := hu
    obtain ⟨n', _, hu'⟩ := hu'
    split_ifs at hu hu' <;> simp only [List.mem_map, List.not_mem_nil] at hu hu'
    obtain ⟨v, _, h⟩ := hu
    obtain ⟨v', _, h'⟩ := hu'
    rw [← h'] at h
    simp only [Prod.mk.injEq] at h
    exact hne h.2.1

theorem seq_index_tuple_inverse (I : SeqInst) (u : STup) (k : ℕ) :
    I.varIndex u = some k ↔ I.varTuple k = some u := by
  exact idxOf_lookup_some_iff I.vars (seq_vars_nodup I) u k

theorem seq_index_none_iff (I : SeqInst) (u : STup) :
    I.varIndex u = none ↔ ¬ (u.1 < I.V ∧ u.2.1 < I.L ∧ u.2.2 < I.g.nodes.length ∧ I.fixed u.2.1 u.2.2 = none) := by
  have h1 : I.varIndex u = none ↔ u ∉ I.vars := idxOf_lookup_none_iff I.vars u
  rw [h1, seq_vars_mem_iff I u]

theorem seq_index_lt (I : SeqInst) (u : STup) (k : ℕ) (h : I.varIndex u = some k) : k < I.vars.length := by
  exact idxOf_lookup_lt I.vars u k h

/-- non-vacuity: `examples/small.py` arc-based instance has the admissible tuple (D,0) → (1,1) -/
example :
    let g : Graph := { nodes := [⟨"D", 0, 0, none⟩, ⟨"1", 1, 1, some 7⟩],
                       arcs := [((0, 1), ⟨"D", "1", 1, 1⟩), ((1, 0), ⟨"1", "D", 1, 1⟩)] }
    let I : ArcInst := ({ g := g, T := [] } : ArcInst).addTimePoints [7, 0, 4, 1, 2]
    I.varIndex (0, 0, 1, 1) = some 0 ∧ I.admissible (0, 0, 1, 1) = true ∧ I.varIndex (0, 0, 1, 0) = none := by
  refine ⟨by decide +kernel, by decide +kernel, by decide +kernel⟩

end Vrp.C18
