import VrpProofs.Props.C18
import VrpProofs.Props.C05
import Mathlib.Tactic.Linarith
/-!
# C18 (time grid): `add_time_points` yields a strictly increasing grid

`Props/C05` and `Props/C18` assume a sorted grid without repeats (`C05.WF`).  The pinned `add_time_points` only
sorted, so a time point given twice was enumerated twice (defect D14, repaired with `np.unique`).  With the
repaired call the assumption is a theorem for every instance built through the API.
-/
namespace Vrp.C18
open Vrp

theorem mem_dedupSorted (l : List ℚ) (t : ℚ) : t ∈ dedupSorted l ↔ t ∈ l := by
  induction l using dedupSorted.induct with
  | case1 => simp [dedupSorted]
  | case2 a => simp [dedupSorted]
  | case3 b rest ih =>
    simp only [dedupSorted, if_true, ih, List.mem_cons]
    tauto
  | case4 a b rest hab ih =>
    simp only [dedupSorted, hab, if_false, List.mem_cons, ih]

theorem dedupSorted_strict (l : List ℚ) (h : l.Pairwise (· ≤ ·)) : (dedupSorted l).Pairwise (· < ·) := by
  induction l using dedupSorted.induct with
  | case1 => simp [dedupSorted]
  | case2 a => simp [dedupSorted]
  | case3 b rest ih =>
    simp only [dedupSorted, if_true]
    exact ih (List.Pairwise.of_cons h)
  | case4 a b rest hab ih =>
    simp only [dedupSorted, hab, if_false]
    have h' := List.pairwise_cons.mp h
    refine List.pairwise_cons.mpr ⟨?_, ih h'.2⟩
    intro t ht
    rw [mem_dedupSorted] at ht
    have hbt : b ≤ t := by
      rcases List.mem_cons.mp ht with rfl | ht'
      · exact le_refl _
      · exact (List.pairwise_cons.mp h'.2).1 t ht'
    have hab' : a ≤ b := h'.1 b (List.mem_cons_self ..)
    exact lt_of_lt_of_le (lt_of_le_of_ne hab' hab) hbt

/-- **the grid stored by `add_time_points` is sorted, has no repeats and has exactly the given points** -/
theorem addTimePoints_grid (I : ArcInst) (pts : List ℚ) :
    (I.addTimePoints pts).T.Pairwise (· < ·) ∧ (I.addTimePoints pts).T.Pairwise (· ≤ ·) ∧
    (I.addTimePoints pts).T.Nodup ∧ ∀ t, t ∈ (I.addTimePoints pts).T ↔ t ∈ pts := by
  have hs := sortRat_sorted_perm pts
  have hstrict := dedupSorted_strict _ hs.1
  refine ⟨hstrict, hstrict.imp le_of_lt, hstrict.imp ne_of_lt, fun t => ?_⟩
  show t ∈ dedupSorted (sortRat pts) ↔ t ∈ pts
  rw [mem_dedupSorted]
  exact hs.2.mem_iff

/-- so `C05.WF` holds for every instance built through the API on a self-consistent graph -/
theorem addTimePoints_wf (I : ArcInst) (pts : List ℚ) (hg : C15.Inv I.g) : C05.WF (I.addTimePoints pts) :=
  ⟨(addTimePoints_grid I pts).2.1, (addTimePoints_grid I pts).2.2.1, hg⟩

/-- regression: the pinned call keeps a repeated point, and the arc-based variable list then repeats a tuple -/
theorem addTimePointsPinned_repeats :
    ¬ (({ g := {}, T := [] } : ArcInst).addTimePointsPinned [0, 1, 1]).T.Nodup ∧
    (({ g := {}, T := [] } : ArcInst).addTimePoints [0, 1, 1]).T = [0, 1] := by
  constructor <;> decide +kernel

end Vrp.C18
