import VrpProofs.Props.C18b
import VrpProofs.Lemmas.Relabel
/-!
# C18 (numbering): which index a decision tuple gets is immaterial

C18 asks for a bijection between the indices `0 … n-1` and the admissible decision tuples; it does not say WHICH index a tuple
gets, and no other property does.  The correspondence check therefore compares model and implementation modulo a renumbering of the
variables (`harness/vh/form_util.py`, "enumeration order").  These theorems say why that loses nothing: for every renumbering `σ`
of the variables the relabelled data have the same constraint rows, the same quadratic values and the same set of values on binary
vectors — hence the same feasible set, minimum and zero set up to the relabelling of the vector (C02–C09).  Stated for any field of
type `K` (the model computes in `ℚ`).
-/
namespace Vrp.C18
open Vrp Vrp.G Finset

variable {K : Type*} [Field K]

/-- a linear constraint row evaluates to the same left-hand side after relabelling coefficients and vector -/
theorem renumbering_preserves_rows {n : ℕ} {σ : Equiv.Perm ℕ} (h : Renumbering n σ) (a x : ℕ → K) :
    ∑ j ∈ range n, a (σ j) * x (σ j) = ∑ j ∈ range n, a j * x j := row_renumber h a x

/-- a QUBO (and any quadratic objective or quadratic constraint) has the same value at the relabelled vector -/
theorem renumbering_preserves_energy {n : ℕ} {σ : Equiv.Perm ℕ} (h : Renumbering n σ) (Q : ℕ → ℕ → K) (c : K) (x : ℕ → K) :
    G.evalQubo n (fun i j => Q (σ i) (σ j)) c (fun i => x (σ i)) = G.evalQubo n Q c x := evalQubo_renumber h Q c x

/-- relabelling maps binary vectors to binary vectors -/
theorem renumbering_preserves_binary {n : ℕ} {σ : Equiv.Perm ℕ} (h : Renumbering n σ) {x : ℕ → K} (hx : BinaryOn n x) :
    BinaryOn n (fun i => x (σ i)) := binaryOn_renumber h hx

/-- the two numberings give QUBOs with exactly the same values on binary vectors (same minimum, same zero set) -/
theorem renumbering_preserves_values {n : ℕ} {σ : Equiv.Perm ℕ} (h : Renumbering n σ) (Q : ℕ → ℕ → K) (c v : K) :
    (∃ x, BinaryOn n x ∧ G.evalQubo n (fun i j => Q (σ i) (σ j)) c x = v) ↔ (∃ y, BinaryOn n y ∧ G.evalQubo n Q c y = v) :=
  evalQubo_values_renumber h Q c v

/-- non-vacuity: swapping variables 0 and 1 of three is a renumbering, and it changes a concrete matrix -/
example : Renumbering 3 (Equiv.swap 0 1) ∧
    (fun i j => (if i = 0 ∧ j = 2 then (5 : ℚ) else 0)) ≠ (fun i j => (if Equiv.swap 0 1 i = 0 ∧ Equiv.swap 0 1 j = 2 then (5 : ℚ) else 0)) := by
  constructor
  · intro a ha
    by_contra hlt
    exact ha (Equiv.swap_apply_of_ne_of_ne (by omega) (by omega))
  · intro hEq
    have := congrFun (congrFun hEq 0) 2
    simp at this

end Vrp.C18
