import VrpModel.Sampler

/-!
# C19 — Sampler expressions evaluate the expression on the leaf draws

Core Lean only.  `rvs d m (build e) σ` is what the code computes for the sampler object produced by
the operator overloads; `evalE d m e σ` is the expression applied elementwise to the arrays drawn
from its leaves (leaves drawn left to right, each occurrence once).  Division by zero is outside the
statement's meaning: numpy yields inf/nan there while `Rat` division totalises to 0; the
correspondence check only runs inputs with `denomOK = true` and the model driver refuses the others.
-/
namespace Vrp.C19
open Vrp

theorem evalE_length (d : Nat → Nat → List Rat) (m : Nat) (hd : ∀ i k, (d i k).length = m) :
    ∀ (e : E) (σ : Cnt), (evalE d m e σ).1.length = m := by
  intro e
  induction e with
  | leaf i => intro σ; simp [evalE, hd]
  | neg a ih => intro σ; simp [evalE, ih]
  | addSS a b iha ihb | subSS a b iha ihb | mulSS a b iha ihb | divSS a b iha ihb =>
    intro σ; simp [evalE, iha, ihb]
  | addSC a c ih | addCS c a ih | subSC a c ih | subCS c a ih | mulSC a c ih | mulCS c a ih
  | divSC a c ih | divCS c a ih => intro σ; simp [evalE, ih]

private theorem zipWith_replicate_right {α β γ} (f : α → β → γ) (l : List α) (c : β) (m : Nat)
    (h : l.length = m) : List.zipWith f l (List.replicate m c) = l.map (fun x => f x c) := by
  subst h
  induction l with
  | nil => simp
  | cons a l ih => simp [List.replicate_succ, ih]

private theorem zipWith_replicate_left {α β γ} (f : α → β → γ) (l : List β) (c : α) (m : Nat)
    (h : l.length = m) : List.zipWith f (List.replicate m c) l = l.map (fun x => f c x) := by
  subst h
  induction l with
  | nil => simp
  | cons a l ih => simp [List.replicate_succ, ih]

private theorem zipWith_add_neg (l₁ l₂ : List Rat) :
    List.zipWith (· + ·) l₁ (l₂.map (fun x => -x)) = List.zipWith (· - ·) l₁ l₂ := by
  induction l₁ generalizing l₂ with
  | nil => simp
  | cons a l₁ ih =>
    cases l₂ with
    | nil => simp
    | cons b l₂ => simp [ih, Rat.sub_eq_add_neg]

/-- **main theorem**: sampling the built sampler = evaluating the expression on the leaf draws,
    with the same assignment of draws to leaf occurrences (same final counters), for every
    expression tree, every sample size and every family of leaf draws of that size -/
theorem rvs_build_eq_eval (d : Nat → Nat → List Rat) (m : Nat) (hd : ∀ i k, (d i k).length = m) :
    ∀ (e : E) (σ : Cnt), rvs d m (build e) σ = evalE d m e σ := by
  intro e
  induction e with
  | leaf i => intro σ; rfl
  | neg a ih => intro σ; simp [build, rvs, evalE, ih]
  | addSS a b iha ihb | mulSS a b iha ihb | divSS a b iha ihb =>
    intro σ; simp [build, rvs, evalE, iha, ihb]
  | subSS a b iha ihb =>
    intro σ; simp [build, rvs, evalE, iha, ihb, zipWith_add_neg]
  | addSC a c ih =>
    intro σ
    have hl := evalE_length d m hd a σ
    simp only [build, rvs, evalE, ih]
    rw [zipWith_replicate_right _ _ _ _ hl]
  | addCS c a ih =>
    intro σ
    have hl := evalE_length d m hd a σ
    simp only [build, rvs, evalE, ih]
    rw [zipWith_replicate_left _ _ _ _ hl]
  | subSC a c ih =>
    intro σ
    have hl := evalE_length d m hd a σ
    simp only [build, rvs, evalE, ih, List.map_replicate]
    rw [zipWith_replicate_right _ _ _ _ hl]
    simp [Rat.sub_eq_add_neg]
  | subCS c a ih =>
    intro σ
    have hl := evalE_length d m hd a σ
    simp only [build, rvs, evalE, ih]
    rw [zipWith_replicate_left _ _ _ _ (by simpa using hl)]
    simp [Rat.sub_eq_add_neg, List.map_map, Function.comp_def]
  | mulSC a c ih =>
    intro σ
    have hl := evalE_length d m hd a σ
    simp only [build, rvs, evalE, ih]
    rw [zipWith_replicate_right _ _ _ _ hl]
  | mulCS c a ih =>
    intro σ
    have hl := evalE_length d m hd a σ
    simp only [build, rvs, evalE, ih]
    rw [zipWith_replicate_left _ _ _ _ hl]
  | divSC a c ih =>
    intro σ
    have hl := evalE_length d m hd a σ
    simp only [build, rvs, evalE, ih]
    rw [zipWith_replicate_right _ _ _ _ hl]
  | divCS c a ih =>
    intro σ
    have hl := evalE_length d m hd a σ
    simp only [build, rvs, evalE, ih]
    rw [zipWith_replicate_left _ _ _ _ hl]

/-- the result has shape `(m,)` -/
theorem rvs_length (d : Nat → Nat → List Rat) (m : Nat) (hd : ∀ i k, (d i k).length = m) (e : E) (σ : Cnt) :
    (rvs d m (build e) σ).1.length = m := by
  rw [rvs_build_eq_eval d m hd]; exact evalE_length d m hd e σ

/-- each leaf occurrence is drawn exactly once: leaf `i` is sampled `occ i e` more times -/
theorem each_leaf_occurrence_drawn_once (d : Nat → Nat → List Rat) (m : Nat) :
    ∀ (e : E) (σ : Cnt) (i : Nat), (evalE d m e σ).2 i = σ i + e.occ i := by
  intro e
  induction e with
  | leaf j =>
    intro σ i; simp only [evalE, bump, E.occ]
    by_cases h : i = j
    · subst h; simp
    · have : ¬ j = i := fun e => h e.symm
      simp [h, this]
  | neg a ih => intro σ i; simp [evalE, E.occ, ih]
  | addSS a b iha ihb | subSS a b iha ihb | mulSS a b iha ihb | divSS a b iha ihb =>
    intro σ i; simp only [evalE, E.occ, ihb, iha]; omega
  | addSC a c ih | addCS c a ih | subSC a c ih | subCS c a ih | mulSC a c ih | mulCS c a ih
  | divSC a c ih | divCS c a ih => intro σ i; simp [evalE, E.occ, ih]

theorem rvs_draw_counts (d : Nat → Nat → List Rat) (m : Nat) (hd : ∀ i k, (d i k).length = m)
    (e : E) (σ : Cnt) (i : Nat) : (rvs d m (build e) σ).2 i = σ i + e.occ i := by
  rw [rvs_build_eq_eval d m hd]; exact each_leaf_occurrence_drawn_once d m e σ i

/-- the generic helper returns non-random values unchanged iff their length matches -/
theorem sample_nonrandom (v : Plain) (size : Nat) :
    (samplePlain v size = .ok v ↔ (match v with | .scalar _ => size = 1 | .seq xs => xs.length = size)) ∧
    (samplePlain v size = .error () ↔ ¬ (match v with | .scalar _ => size = 1 | .seq xs => xs.length = size)) := by
  cases v <;> simp [samplePlain] <;> constructor <;> (try split) <;> simp_all

/-- non-vacuity: `2 - a/2` on the draws a = [4, 6] gives [0, -1] and draws `a` once -/
example : (rvs (fun _ _ => [4, 6]) 2 (build (.subCS 2 (.divSC (.leaf 0) 2))) (fun _ => 0)).1 = [0, -1] ∧
    (rvs (fun _ _ => [4, 6]) 2 (build (.subCS 2 (.divSC (.leaf 0) 2))) (fun _ => 0)).2 0 = 1 := by
  constructor <;> decide +kernel

end Vrp.C19
