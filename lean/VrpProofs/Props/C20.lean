import VrpProofs.Lemmas.Bits
import Mathlib.Tactic.Linarith
import Mathlib.Algebra.BigOperators.Field
import Mathlib.Algebra.Order.Field.Rat

/-!
# C20 — QUBO report statistics equal brute-force values
-/
namespace Vrp.C20
open Vrp

/-- specification of the scan state after having seen the values `seen`:
    `opt` is the minimum, `cnt` its multiplicity, `snd` the least value strictly above `opt` -/
structure ScanSpec (s : Scan) (seen : List ℚ) : Prop where
  opt_mem : s.opt ∈ seen
  opt_le : ∀ v ∈ seen, s.opt ≤ v
  cnt_eq : s.cnt = seen.count s.opt
  snd_none : s.snd = none → ∀ v ∈ seen, v = s.opt
  snd_some : ∀ w, s.snd = some w → w ∈ seen ∧ s.opt < w ∧ ∀ v ∈ seen, s.opt < v → w ≤ v

theorem step_spec (s : Scan) (seen : List ℚ) (v : ℚ) (h : ScanSpec s seen) :
    ScanSpec (s.step v) (seen ++ [v]) := by
  unfold Scan.step
  split
  · next hv =>
    subst hv
    refine ⟨by simp, ?_, ?_, ?_, ?_⟩
    · intro u hu; rcases List.mem_append.1 hu with hu | hu
      · exact h.opt_le u hu
      · simp at hu; subst hu; exact le_refl _
    · simp [h.cnt_eq]
    · intro hs u hu; rcases List.mem_append.1 hu with hu | hu
      · exact h.snd_none hs u hu
      · simp at hu; exact hu
    · intro w hw
      obtain ⟨a, b, c⟩ := h.snd_some w hw
      refine ⟨by simp [a], b, ?_⟩
      intro u hu hlt; rcases List.mem_append.1 hu with hu | hu
      · exact c u hu hlt
      · simp at hu; subst hu; exact absurd hlt (lt_irrefl _)
  · next hne =>
    split
    · next hlt =>
      refine ⟨by simp, ?_, ?_, ?_, ?_⟩
      · intro u hu; rcases List.mem_append.1 hu with hu | hu
        · exact le_trans (le_of_lt hlt) (h.opt_le u hu)
        · simp at hu; subst hu; exact le_refl _
      · have : seen.count v = 0 := by
          rw [List.count_eq_zero]; intro hm; exact absurd (h.opt_le v hm) (not_le.2 hlt)
        simp [this]
      · intro hs; simp at hs
      · intro w hw; simp at hw; subst hw
        refine ⟨by simp [h.opt_mem], hlt, ?_⟩
        intro u hu hlt'; rcases List.mem_append.1 hu with hu | hu
        · exact h.opt_le u hu
        · simp at hu; subst hu; exact absurd hlt' (lt_irrefl _)
    · next hnlt =>
      have hgt : s.opt < v := lt_of_le_of_ne (not_lt.1 hnlt) (Ne.symm hne)
      have hcnt : (seen ++ [v]).count s.opt = seen.count s.opt := by
        simp [List.count_append, hne]
      split
      · next hs =>
        refine ⟨by simp [h.opt_mem], ?_, by simpa [hcnt] using h.cnt_eq, by simp, ?_⟩
        · intro u hu; rcases List.mem_append.1 hu with hu | hu
          · exact h.opt_le u hu
          · simp at hu; subst hu; exact le_of_lt hgt
        · intro w hw; simp at hw; subst hw
          refine ⟨by simp, hgt, ?_⟩
          intro u hu hlt'; rcases List.mem_append.1 hu with hu | hu
          · have := h.snd_none hs u hu; subst this; exact absurd hlt' (lt_irrefl _)
          · simp at hu; subst hu; exact le_refl _
      · next w hs =>
        obtain ⟨a, b, c⟩ := h.snd_some w hs
        split
        · next hvw =>
          refine ⟨by simp [h.opt_mem], ?_, by simpa [hcnt] using h.cnt_eq, by simp, ?_⟩
          · intro u hu; rcases List.mem_append.1 hu with hu | hu
            · exact h.opt_le u hu
            · simp at hu; subst hu; exact le_of_lt hgt
          · intro w' hw'; simp at hw'; subst hw'
            refine ⟨by simp, hgt, ?_⟩
            intro u hu hlt'; rcases List.mem_append.1 hu with hu | hu
            · exact le_trans (le_of_lt hvw) (c u hu hlt')
            · simp at hu; subst hu; exact le_refl _
        · next hvw =>
          refine ⟨by simp [h.opt_mem], ?_, by simpa [hcnt] using h.cnt_eq, ?_, ?_⟩
          · intro u hu; rcases List.mem_append.1 hu with hu | hu
            · exact h.opt_le u hu
            · simp at hu; subst hu; exact le_of_lt hgt
          · intro hn; rw [hs] at hn; exact absurd hn (by simp)
          · intro w' hw'; rw [hs] at hw'; simp at hw'; subst hw'
            refine ⟨by simp [a], b, ?_⟩
            intro u hu hlt'; rcases List.mem_append.1 hu with hu | hu
            · exact c u hu hlt'
            · simp at hu; subst hu; exact not_lt.1 hvw

/-- **scan invariant**: for every starting value and every visiting order of the remaining values -/
theorem scan_spec (v0 : ℚ) (vs : List ℚ) : ScanSpec (scan v0 vs) (v0 :: vs) := by
  unfold scan
  have base : ScanSpec (⟨v0, 1, none⟩ : Scan) [v0] := ⟨by simp, by simp, by simp, by simp, by simp⟩
  suffices ∀ (s : Scan) (seen : List ℚ), ScanSpec s seen → ScanSpec (vs.foldl Scan.step s) (seen ++ vs) by
    simpa using this _ _ base
  induction vs with
  | nil => intro s seen h; simpa using h
  | cons v vs ih =>
    intro s seen h
    have := ih (s.step v) (seen ++ [v]) (step_spec s seen v h)
    simpa [List.append_assoc] using this

/-- regression of the *model*: the pinned rule (runner-up set once, never lowered) violates the
    specification on the visiting order 0, 5, 3 (reported gap 5, true gap 3) -/
theorem scanPinned_violates : (scanPinned 0 [5, 3]).snd = some 5 ∧ (scan 0 [5, 3]).snd = some 3 := by
  constructor <;> decide +kernel

/-- all values visited by `report`, including the all-zero assignment it starts from -/
def allValues (n : ℕ) (Q : Mat) (c : ℚ) : List ℚ :=
  (List.range (2 ^ n)).map fun v => evalQubo n Q c (bitsMSB n v)

theorem allValues_eq (n : ℕ) (Q : Mat) (c : ℚ) : c :: reportValues n Q c = allValues n Q c := by
  unfold allValues reportValues
  have h2 : 2 ^ n = (2 ^ n - 1) + 1 := by have := Nat.one_le_two_pow (n := n); omega
  conv_rhs => rw [h2, List.range_succ_eq_map, List.map_cons, List.map_map]
  rw [evalQubo_zero]
  rfl

/-- the values `report` scans are exactly the QUBO values of all binary vectors -/
theorem mem_allValues_iff (n : ℕ) (Q : Mat) (c : ℚ) (r : ℚ) :
    r ∈ allValues n Q c ↔ ∃ x, IsBin n x ∧ evalQubo n Q c x = r := by
  unfold allValues
  simp only [List.mem_map, List.mem_range]
  constructor
  · rintro ⟨v, _, rfl⟩; exact ⟨_, bitsMSB_bin n v, rfl⟩
  · rintro ⟨x, hx, rfl⟩
    obtain ⟨v, hv, hb⟩ := bits_surj n x hx
    exact ⟨v, hv, evalQubo_congr n Q c _ _ hb⟩

/-- **optimal value**: attained by a binary vector and a lower bound on every binary vector -/
theorem report_opt (n : ℕ) (Q : Mat) (c : ℚ) :
    (∃ x, IsBin n x ∧ evalQubo n Q c x = (report n Q c).opt) ∧
    ∀ x, IsBin n x → (report n Q c).opt ≤ evalQubo n Q c x := by
  have hs := scan_spec c (reportValues n Q c)
  rw [allValues_eq] at hs
  constructor
  · exact (mem_allValues_iff n Q c _).1 hs.opt_mem
  · intro x hx; exact hs.opt_le _ ((mem_allValues_iff n Q c _).2 ⟨x, hx, rfl⟩)

/-- **number of optimal assignments** = number of `v < 2^n` (i.e. of binary vectors, by
    `bits_surj`/`bits_inj`) whose value is the optimum -/
theorem report_count (n : ℕ) (Q : Mat) (c : ℚ) :
    (report n Q c).count = (allValues n Q c).count (report n Q c).opt := by
  have hs := scan_spec c (reportValues n Q c)
  rw [allValues_eq] at hs
  exact hs.cnt_eq

/-- **optimality gap**: absent iff all assignments have the same value; otherwise the distance from
    the optimum to the least value strictly above it -/
theorem report_gap (n : ℕ) (Q : Mat) (c : ℚ) :
    ((report n Q c).gap = none → ∀ x, IsBin n x → evalQubo n Q c x = (report n Q c).opt) ∧
    (∀ g, (report n Q c).gap = some g →
      (∃ x, IsBin n x ∧ evalQubo n Q c x = (report n Q c).opt + g) ∧ 0 < g ∧
      ∀ x, IsBin n x → (report n Q c).opt < evalQubo n Q c x → (report n Q c).opt + g ≤ evalQubo n Q c x) := by
  have hs := scan_spec c (reportValues n Q c)
  rw [allValues_eq] at hs
  constructor
  · intro hg x hx
    have : (scan c (reportValues n Q c)).snd = none := by
      simpa [report, Option.map_eq_none_iff] using hg
    exact hs.snd_none this _ ((mem_allValues_iff n Q c _).2 ⟨x, hx, rfl⟩)
  · intro g hg
    have : ∃ w, (scan c (reportValues n Q c)).snd = some w ∧ w - (scan c (reportValues n Q c)).opt = g := by
      simpa [report, Option.map_eq_some_iff] using hg
    obtain ⟨w, hw, hwg⟩ := this
    obtain ⟨a, b, d⟩ := hs.snd_some w hw
    have hopt : (report n Q c).opt = (scan c (reportValues n Q c)).opt := rfl
    rw [hopt]
    have hw' : (scan c (reportValues n Q c)).opt + g = w := by rw [← hwg]; ring
    rw [hw']
    refine ⟨(mem_allValues_iff n Q c _).1 a, by rw [← hwg]; linarith, ?_⟩
    intro x hx hlt
    exact d _ ((mem_allValues_iff n Q c _).2 ⟨x, hx, rfl⟩) hlt

/-- **mean objective**: the sum over all `2^n` assignments (all-zero one included) divided by `2^n` -/
theorem report_mean (n : ℕ) (Q : Mat) (c : ℚ) :
    (report n Q c).mean = (allValues n Q c).sum / (2 ^ n : ℕ) := by
  unfold report
  simp only [sumList_eq, allValues_eq]
  generalize allValues n Q c = l
  induction l with
  | nil => simp
  | cons a l ih => simp only [List.map_cons, List.sum_cons, ih]; ring

/-- structural metrics are those of the upper-triangular form, density as defined -/
theorem report_structure (n : ℕ) (Q : Mat) (c : ℚ) :
    (report n Q c).size = n ∧ (report n Q c).nnzU = nnz n (toUpper Q) ∧
    (report n Q c).density = 2 * (nnz n (toUpper Q) : ℚ) / (((n : ℚ) + 1) * n) := ⟨rfl, rfl, rfl⟩

/-- non-vacuity: diag(5,3,7)+2 — the witness on which the pinned code reported mean 9.25 / gap 7 -/
example : (report 3 (matOf [[5,0,0],[0,3,0],[0,0,7]]) 2).mean = 19/2 ∧
    (report 3 (matOf [[5,0,0],[0,3,0],[0,0,7]]) 2).gap = some 3 ∧
    (report 3 (matOf [[5,0,0],[0,3,0],[0,0,7]]) 2).count = 1 := by
  refine ⟨by decide +kernel, by decide +kernel, by decide +kernel⟩

end Vrp.C20
