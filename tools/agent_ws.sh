#!/bin/sh
# usage: agent_ws.sh <name>   -> /root/agents/<name>/lean : private copy of the lake project (with build output)
set -e
d=/root/agents/$1
rm -rf "$d"; mkdir -p "$d"
cp -r /verif/lean "$d/lean"
echo "$d/lean"
