# executed by mkmanifest.py: one claim(...) per property that has a working check
claim("C01", "DESIGN.md §5 C01",
      "Lean 4 theorems (energy identities over any char-0 field, both directions; zero diagonal; map inverses) + differential correspondence and exhaustive 2^n energy oracle",
      "Proved for all n, all matrices/constants/field vectors over any field of characteristic 0 and all binary/spin vectors: "
      "evaluate_Ising(QUBO_to_Ising(Q,c), x_to_s(x)) = evaluate_QUBO(Q,c,x) and the converse with arbitrary coupling diagonal; zero diagonal of J; "
      "x_to_s/s_to_x mutually inverse; non-square rejected. The model is compared with the code on every run (dense J,h,c,Q exactly, every container kind); "
      "the 'inputs unmodified / every container type' half is a byte-level differential test, not a theorem.",
      "Float rounding outside the proof; container semantics of scipy trusted.")

claim("C13", "DESIGN.md §5 C13",
      "Lean 4 theorems (quadratic-form preservation for every vector over any field, structure, container evaluators for every pattern string) + differential correspondence and exhaustive/symmetric-part oracle",
      "Proved for all n and all matrices: to_upper_triangular / to_symmetric keep y'My for every vector y (any field, char 0 for the symmetric form), results are upper triangular / symmetric; "
      "a container built with any pattern string evaluates (QUBO side at every vector, Ising side at the spin image of every binary vector) to the original value; J has zero diagonal and the pattern of Q; "
      "non-square rejected. Model compared with the code on every run for every container kind and mixed-case/other pattern strings; input-not-mutated is a differential test.",
      "Non-ASCII pattern strings and scipy container semantics outside the model.")
claim("C20", "DESIGN.md §5 C20",
      "Lean 4 theorems (scan invariant by fold induction for every visiting order; bit-pattern enumeration is a bijection onto binary vectors; optimum/count/gap/mean equal brute-force definitions) + differential correspondence and brute-force oracle",
      "Proved for all n, Q, c: the values report() scans are exactly the QUBO values of all binary vectors (each once); the reported optimum is attained and minimal, the count is the multiplicity of the optimum, "
      "the gap is the distance to the least value strictly above it (absent iff all values are equal), the mean is the sum over all 2^n assignments divided by 2^n; structural metrics are those of the upper-triangular form. "
      "The model of the pinned runner-up rule is refuted in Lean (scanPinned_violates). Model compared with the code on every run; brute-force oracle in exact arithmetic.",
      "The 1e-16 tolerance is modelled as exact equality (all generated values are exact dyadics); density compared as one correctly-rounded float division.")

claim("C15", "DESIGN.md §5 C15",
      "Lean 4 invariant proof by induction over call histories of the graph state machine (all three flavours) + differential correspondence after every call and invariant oracle on the real object",
      "Proved for every finite history of add_node/add_arc/set_depot (base class and the sequence-based overrides): names unique, dict keys unique, every stored arc filed under the current positions of its own "
      "endpoints and passing the timing filter; set_depot puts the depot first; add_arc succeeds iff stored iff the timing rule; raising calls leave the graph unchanged. The model of the pinned set_depot is refuted in Lean. "
      "Model compared with the real object after every call (names, windows, arc dict in order, return value / error kind); object-identity invariant checked on the real graph.",
      "Node objects are immutable after creation, so arcs are modelled by endpoint names; the identity check is in the oracle.")
claim("C19", "DESIGN.md §5 C19",
      "Lean 4 structural induction over expression trees (core Lean): rvs(build e) = evalE e with identical draw counters + differential correspondence with counting stub leaves",
      "Proved for all expression trees over leaves and real constants on either side of + - * / and negation, all sample sizes and all leaf draws: the sampler object built by the operator overloads returns the expression applied "
      "elementwise to the leaf draws, of length m, each leaf occurrence drawn exactly once in left-to-right order; the non-random helper returns its argument iff the length matches. "
      "Model compared with the code on every run (arrays, draw counts); seeded scipy leaves compared with the same numpy operations.",
      "Zero denominators excluded explicitly (numpy inf/nan vs totalised Rat division); float-inexact quotients are skipped and counted.")

claim("C02", "DESIGN.md §5 C02",
      "Lean 4 theorems (penalty-QUBO energy identity over any field and for the model's MPData; well-shapedness of the three formulations' data; totality of the sequence data for L>=3) + differential correspondence and exhaustive 2^n identity check",
      "Proved for every program data (A,b,R,c,Q_obj), every rho of either sign, both modes and every binary x: x'Qx+k = objective(x) + rho(|Ax-b|^2 + x'Rx) (generic over any field; instantiated for the model). "
      "Proved for the three formulation builders: dimensions are consistent (A is len(b) x n, c has length n, all indices in range), so get_qubo — modelled as a partial operation that fails on inconsistent shapes (MPData.getQubo) — returns (Q,k) for every arc instance with a self-consistent graph, every path pool reachable by add_route (PoolInv) and every sequence instance with L>=3 (arc_/path_/seq_getQubo_ok), and what it returns satisfies the identity (getQubo_ok_energy); sequence-based consistency assertions cannot fail when L>=3. "
      "The builders (variable lists, A triples, b, R, c, Q_obj, sufficient penalty, Q, k) are compared with the code on every run, before and after the heuristic; the identity is re-checked on the real code's outputs over all 2^n vectors.",
      "scipy shape inference / COO dot quirks belong to the pinned code (repaired); the model keeps inferShape only as a regression lemma.")
claim("C03", "DESIGN.md §5 C03",
      "Lean 4 theorems (penalty non-negative, zero iff all linear and quadratic constraints hold; feasibility QUBO with default rho=1 equals the penalty) + correspondence and exhaustive zero-set check",
      "Proved for every program data and every binary x: the feasibility-mode QUBO with the default (and any positive) penalty is >= 0 and = 0 exactly when x satisfies all linear rows and the quadratic constraint; "
      "hence minimum 0 iff the constrained program is feasible and every zero-energy assignment is a solution. R is entrywise non-negative by construction (counts). "
      "The package's own feasibility tester (test_feasibility.py) is modelled too: it reports no violation exactly on the feasible set, i.e. exactly where the feasibility QUBO is zero (testFeasibility_clean_iff_qubo_zero), and is compared with the real function on feasible and infeasible vectors of every instance. "
      "Re-checked on the real code over all 2^n vectors of generated instances of the three formulations.",
      "Exact arithmetic; instance generator bounds what the correspondence sees.")
claim("C04", "DESIGN.md §5 C04",
      "Lean 4 theorems (exact-penalty proposition; integrality of the three formulations' data; sufficient-penalty bound >= sum of |objective coefficients| for arc, path and (repaired) sequence formulation) + correspondence and exhaustive argmin comparison",
      "Proved: with integral (A,b), a bound suff >= sum|coeff| and a feasible program, the minimisers of the default-penalty QUBO over all binary vectors are exactly the constrained optima and the minimum equals the optimal cost; "
      "the three formulations satisfy the hypotheses for EVERY instance state (so also after the heuristic, any high cost, negative costs). The pinned sequence bound is refuted in Lean on a witness. "
      "Argmin sets compared by brute force on the real code for n <= 16.",
      "Feasibility of the program is a hypothesis of the property; infeasible instances are skipped and counted.")
claim("C06", "DESIGN.md §5 C06",
      "Lean 4 theorems (check_route accepts iff the VRPTW route definition holds; cost; name resolution; pool invariant over add_route/add_node histories; exact-cover data) + differential correspondence over route histories and independent route-definition oracle",
      "Route admission, stored cost, store-once and the exact-cover constraint data are modelled operationally (early exits, on-the-fly name resolution) and compared with the code on every candidate route of generated histories "
      "(names/indices/mixed, valid and mutated-invalid routes, later nodes and arcs). Theorems: see evidence (merged as they are proved).",
      "Capacity/initial load set; integer stops are valid positions; depot is node 0.")
claim("C11", "DESIGN.md §5 C11",
      "Lean 4 theorems (window endpoints <-> inventory inequalities for both port types; validity iff size <= cap; add_nodes emits exactly the visits ending within the horizon; inventory safety for every choice of service times via two pigeonhole lemmas) + correspondence and inventory simulation",
      "Proved for all rational parameters: each window opens at the first instant a full cargo can be loaded/discharged and closes at the last safe instant; the loop of add_nodes terminates and emits exactly visits k=0..K-1 with demand -/+size; "
      "servicing every node once anywhere inside its window keeps the inventory in [0,cap] at every instant of the horizon (both just-before and just-after counts, any order, overlapping windows). "
      "Windows, names, demands compared with the code exactly on dyadic ports and with tolerance (tie guard) on G1.",
      "0 < size, rate != 0, 0 <= init <= cap, size <= cap, fresh node names (hypotheses stated in the theorems).")
claim("C12", "DESIGN.md §5 C12",
      "Lean 4 invariant proof over every successful sequence of MIRP helper calls (arc kinds, alternation, timing filter), load alternation along every depot path by induction, exit arcs, arc data of travel arcs, exactness of the arc set for the standard helper order (no other arcs / all of them / one dummy per eligible demand visit) + full-graph correspondence and kind/arc-set oracle",
      "Proved for every successful build (any order/number of helper calls, positive cargo size, distinct port names): depot arcs lead only to loading nodes, non-depot arcs alternate loading/discharging, every stored arc passes the timing filter; "
      "along every depot path the load is size after a loading node and 0 after a discharging node; every regular node gets an exit arc and arcs are never removed; travel arcs carry distance/speed and distance*unit+destination fee. "
      "For the standard order (ports, travel, exit, entry — the order of mirp_g1 and of the random generator) the arc set is exactly the specified one (Props/C12b: arcs_sound, arcs_complete, arcs_complete_toDummy, entry_via_dummy, dummy_degree, with ports_build_facts discharging the hypotheses for every successful port declaration sequence). Every other order of the three closing calls fails in the same cases and yields the same nodes, the same arc keys and the same stored arcs (Props/C12c: finish_order_independent), so soundness and completeness hold for all six orders (arcs_sound_any_order, arcs_complete_any_order). "
      "The complete arc dictionary and node list are compared with the code; the exactly-specified arc set is re-derived independently (also on G1 and random-generator instances).",
      "Exactness of the arc set for permuted orders of the three closing helper calls rests on the oracle (proved for the standard order).")
claim("C18", "DESIGN.md §5 C18",
      "Lean 4 theorems (sorted-grid continue/break scan = window filter; enumerated tuples = admissible tuples; Nodup; index<->tuple lookups mutually inverse; none for inadmissible tuples and indices >= n; same for the sequence fixing rules) + correspondence on whole variable lists and lookup boxes",
      "Proved: add_time_points sorts (any input order); on a sorted grid the enumeration yields exactly the admissible (i,s,j,t); no duplicates for duplicate-free grids; both lookups are mutual inverses; inadmissible tuples and indices >= n map to nothing; "
      "sequence-based: the free variables are exactly the in-range (v,p,n) not fixed by the start/end/adjacency rules. Variable lists and lookups compared with the code on boxes of tuples incl. off-grid and out-of-window ones.",
      "Grid without duplicate values; sequence lookups inside the declared ranges.")

claim("C05", "DESIGN.md §5 C05",
      "Lean 4 theorems (constraint rows <-> visit-once + flow conservation; unique successor/predecessor; every selected move lies on a depot-to-depot route (strong induction on later arrivals / earlier departures, positive travel times); completeness for every route set; objective = summed arc cost) + correspondence (data, decoding) and exhaustive 2^n comparison with an independent decomposition",
      "Proved for every instance with a sorted duplicate-free grid and a self-consistent graph: a binary vector satisfies the arc-based constraints iff every customer is arrived at exactly once and flow is conserved at every (customer,time); "
      "with positive customer-to-customer travel times every selected move then lies on a depot-to-depot route of selected admissible moves (routes are equal or disjoint by uniqueness of successors/predecessors); conversely the indicator of any such route set is feasible; "
      "the objective is the summed cost of the arcs used. Decoding (get_routes) is modelled operationally and compared with the code and with the independent decomposition on every feasible vector of generated instances (no decode theorem: partial). "
      "The complete-grid half is exercised in C08.",
      "Positive customer-to-customer times, no depot self-arc, duplicate-free grid. Decode correctness rests on the correspondence + oracle.")
claim("C07", "DESIGN.md §5 C07",
      "Lean 4 theorems (feasible <-> indicator of per-vehicle walks with absorbing depot, both directions, at the level of the model's MPData; representability; objective = move costs + surcharges; strict arcs imply time feasibility by induction along the walk; decoder returns the walks) + correspondence and exhaustive comparison with an independent walk enumeration",
      "Proved for every graph, V, L >= 3, strict or not: a binary vector satisfies all linear and quadratic constraints iff it is the indicator of walks that start/end at the depot, move along arcs, never leave the depot again and visit every customer once; every such assignment is representable; "
      "the objective equals the summed move costs plus per-move surcharges; the strict arc rule holds after EVERY call history on a strict object (strictArcs_reachable; set_depot re-checks the stored arcs since fix cc21dba), and under it every walk meets all time windows (clock from the depot's opening); the depot self-loop (time 0, cost 0) that the theorems use is established for every API-reachable object — constructor, setters, graph calls that do not overwrite it, successful heuristics (Props/C07c: apiReach_facts) — and the main theorems are restated without that hypothesis (…_api); the operational decoder (sort + pops) returns the walks. "
      "Data, decoding and objective are compared with the code on every walk assignment of generated instances; all 2^n vectors for n <= 13.",
      "L >= 3 and at least one node (both in the property text); a caller who overwrites the depot self-arc with add_arc(D, D, …) gets that arc (documented behaviour, outside the _api theorems).")
claim("C08", "DESIGN.md §5 C08, §11",
      "Lean 4 composition theorems: path-based solutions = partitions into pool routes (all routes => reference), arc-based on a complete grid = reference partitions (both directions, via the decoder and representability theorems), non-strict sequence <= reference, strict sequence >= reference, default-penalty QUBO minima = constrained optima (C04) + exhaustive optimisation of the four real models against an independent optimiser",
      "Proved on the model, cost-preservingly: path-based feasible vectors are exactly the partitions into pool routes, so with all valid routes enumerated the achievable costs are those of the reference problem — also end to end for the pool BUILT by offering routes to add_route on a fixed graph (Props/C08c: poolValid_offer, offer_routes_iff_valid, path_offer_all_eq_reference, path_offer_exhaustive_eq_reference: no pool hypothesis left); "
      "arc-based on a complete grid (capacity not binding, no depot self-arc, positive customer-to-customer times; NO assumption on the depot window any more: the earlier Lean refutation of the statement without 'depot opens at 0' was defect D18 of the path-based route clock, repaired): achievable costs = costs of reference partitions; "
      "every reference partition with <= V routes of <= L stops is a non-strict walk assignment of equal cost; every strict walk assignment is a reference partition of equal cost. Equal / ordered optima and QUBO minima follow with C04. "
      "The four real models are optimised exhaustively on every run (constrained optima and default-penalty QUBO minima) and compared with a subset-DP optimiser over independently enumerated valid routes.",
      "Small instances (<= 3 customers, n <= 18) for the exhaustive comparison; theorems are unbounded. Known finding (listed, not repaired): zero-time cycles between customers are subtours of the arc-based model. 'Capacity not binding' is formalised as all demands zero (CapFree); the sequence theorems speak about the object's own graph (with its depot self-loop), the glue to one shared source graph is carried by the exhaustive comparison.")

claim("C09", "DESIGN.md §5 C09, §11",
      "Lean 4 soundness theorems for the operational models of all three construction heuristics (fold invariants -> walks / exact cover / depot routes -> representation theorems of C05-C07), totality of the path-based one, QUBO-value corollaries + correspondence of the heuristics (outcome, graph, vehicles/pool, solution) + oracle on every normal return",
      "Proved: whenever the sequence-, path- or arc-based make_feasible (as modelled operationally, incl. the repaired raise-on-miss / exit-arc / fresh-name rules) returns normally, the stored vector has length n, is 0/1 and satisfies every linear and quadratic constraint of the RESULTING instance; "
      "hence feasibility-QUBO value 0 and optimisation-QUBO value = objective; the path-based and the sequence-based heuristics never raise under their documented preconditions (every pool / sampler behaviour; every arc set, vehicle count, strictness). "
      "The three operational models are compared with the real heuristics on every run (outcome kind, resulting graph, vehicles / pool, stored solution; the path sampler scripted identically on both sides), and every normal return of the real code (hand-built, planted, G1 at real horizons, random MIRPs, repeated invocations, queries issued before) is checked by the oracle.",
      "Sequence-based soundness assumes L >= 3, a self-consistent graph and the depot self-arc; path-based soundness assumes the sampler returns one of the candidates it is offered (numpy.random.choice).")

claim("C10", "DESIGN.md §5 C10",
      "Lean 4 theorems at record level (records = exactly the non-zero coefficients, each once at its own indices, rounded; loader recovers them entrywise; reloaded Ising energy = energy of the rounded problem at every spin vector; identity on hundredths; integer QUBOs give hundredth Ising coefficients hence exact reload) and at character level (the line-by-line model of load_matrix applied to the rendered text returns the written records) + byte-level comparison of the written file, loader comparison on written and edited files, test-set generator run",
      "Proved: export lists every non-zero linear and coupling coefficient exactly once at its own indices rounded to two decimals (half-even) with the constant, nothing else; loading the file yields entrywise the rounded coefficients (dimension <= n, missing trailing variables have no coefficient), so the energy functions agree at every spin vector; "
      "exact for feasibility instances (integer QUBO). Character level: renderLines (digits, '.2f' text, comment lines) and loadText (line[0], split('='), split(), int, float, length assertion, square shape) are Lean functions; Props/C10b proves loadText (renderLines f) = loadFile f for every sign-consistent file and that export's files are sign-consistent. "
      "renderLines is compared byte-for-byte with the real file (minus timestamp), loadText with the real loader on the written file and 10 edited variants; gen() on small horizons: file names vs variable counts, saved constraint data reloaded through convenience().",
      "The number parsers of the loader model accept exactly the spellings export writes; file I/O, np.savez/pickle exercised, not proved.")
claim("C14", "DESIGN.md §5 C14, §11",
      "Lean 4 refinement proofs at two levels: a flag-level model of the arc- and sequence-based objects (VrpModel/CacheFlags.lean: one function per Python method with its flag reads/writes in order, the heuristics' reset sites at the code's program points, partial state kept when the heuristic raises; operations size / tuple->index / index->tuple / objective / constraints / QUBO / heuristic / every public mutator: add_time_points, set_max_vehicles, set_max_sequence_length, add_arc, add_node, set_depot, set_vehicle_cap, set_initial_loading) refines the cache-free specification on every call history; plus the earlier generic memo machine; call-by-call correspondence of replies and flags + twin-run oracle on real objects",
      "Proved for every call history (queries, heuristic runs and mutators in any number and order, also after a raising heuristic or mutator): every reply of the object with flags and caches equals the reply computed from the instance state alone (arc_refines, seq_refines; coherence invariant: flag set => cache equals the fresh value); asking twice gives equal results and changes neither instance nor solution (…_query_idempotent); deleting all queries (keeping heuristics and mutators) changes no reply of a kept operation, no later reply, not the final instance nor the stored solution (…_queries_irrelevant); a successful flag-level heuristic returns exactly what the instance-level heuristic of C09 returns (…_makeFeasible_connection). "
      "Expressiveness is demonstrated inside Lean: a mutator that forgets the invalidation hook (arc add_time_points, sequence set_max_vehicles) and a sequence heuristic without the loop-head reset provably FAIL refinement on concrete histories (arc_addTimePoints_nohook_not_refines, seq_setMaxVehicles_nohook_not_refines, seq_head_noreset_not_refines); since the repair of D19 every add_arc inside the heuristics invalidates by itself, so the explicit resets of the arc heuristic are provably redundant (v1b/v1c/v2_refines, arc_no_explicit_reset_refines). "
      "The model is tied to the code call by call: reply, all flags after every call, final graph, vehicles and stored solution, on random, systematic (formulation x query kind) and raising histories; the property itself is re-checked on real objects by the twin-run oracle (history with vs without earlier queries, every query twice, fresh-object query orders).",
      "Route decoding is not an operation of the flag machine (reads no cache); path-based object (no caches) by the oracle only; out-of-range lookup arguments outside the model.")

claim("C16", "DESIGN.md §5 C16, §11",
      "Lean 4 theorems on an explicit object store (source unchanged, non-interference, order independence of request interleavings, getter idempotence) + differential test on real objects (deep snapshots, identity disjointness, fingerprints under all 6 orders)",
      "Proved for the object-store model (each formulation slot is created on first request from a copy of the source and only its own slot is written by calls addressed to it), generically and instantiated with the modelled MIRP getters and heuristics (mirp_source_unchanged, mirp_non_interference, mirp_order_independent, mirp_request_order_irrelevant, mirp_getter_idempotent): the source is never changed, the state of a formulation depends only on the source and the calls addressed to it, so any interleaving / request order gives identical formulations, and a repeated request returns the same object. "
      "That Python's deepcopy really yields disjoint objects is runtime behaviour: decided on every run by value snapshots of the source VRPTW/MIRP after every step, identity-disjointness of nodes/arcs/containers, and equality of complete fingerprints of each formulation across all 6 request orders.",
      "The store model's granularity is one cell per formulation; aliasing inside Python objects is tested, not proved.")

claim("C17", "DESIGN.md §5 C17, §11",
      "Lean 4 dataflow theorems (time grid independent of set iteration order; path-based getter independent of the incoming generator state; same explicit seed gives the same random instance) + subprocess differential test over PYTHONHASHSEED values and prior RNG states",
      "Proved at dataflow level: the arc-based time grid (sort of the de-duplicated point set) is the same for every enumeration order of the set; the path-based getter re-seeds, so its result is a function of the instance only; equal explicit seeds give equal random instances. "
      "The runtime half (hash randomisation, numpy generator, scipy.stats, separate interpreter processes) is decided on every run by building the same instances in separate processes under PYTHONHASHSEED in {0,1,random} after 0/5/50 prior draws and comparing complete fingerprints, incl. explicit seed 0.",
      "Runtime components are exercised by the test, not modelled.")

for _p in ["C02", "C03", "C04", "C05", "C06", "C07", "C08", "C09", "C10", "C11", "C12", "C13", "C14", "C15", "C16", "C17", "C18", "C19", "C20"]:
    if _p not in CLAIMED:
        NOT_YET[_p] = "check under construction in this round (see DESIGN.md §10 order of construction); not claimed until its command exists"
