# executed by mkmanifest.py: one claim(...) per property that has a working check
claim("C01", "DESIGN.md §5 C01",
      "Lean 4 theorems (energy identities over any char-0 field, both directions; zero diagonal; map inverses) + differential correspondence and exhaustive 2^n energy oracle",
      "Proved for all n, all matrices/constants/field vectors over any field of characteristic 0 and all binary/spin vectors: "
      "evaluate_Ising(QUBO_to_Ising(Q,c), x_to_s(x)) = evaluate_QUBO(Q,c,x) and the converse with arbitrary coupling diagonal; zero diagonal of J; "
      "x_to_s/s_to_x mutually inverse; non-square rejected. The model is compared with the code on every run (dense J,h,c,Q exactly, every container kind); "
      "the 'inputs unmodified / every container type' half is a byte-level differential test, not a theorem.",
      "Float rounding outside the proof; container semantics of scipy trusted.")

claim("C13", "DESIGN.md §5 C13",
      "Lean 4 theorems (quadratic-form preservation for every vector over any field, structure, container evaluators for every pattern string) + differential correspondence and exhaustive/symmetric-part oracle",
      "Proved for all n and all matrices: to_upper_triangular / to_symmetric keep y'My for every vector y (any field, char 0 for the symmetric form), results are upper triangular / symmetric; "
      "a container built with any pattern string evaluates (QUBO side at every vector, Ising side at the spin image of every binary vector) to the original value; J has zero diagonal and the pattern of Q; "
      "non-square rejected. Model compared with the code on every run for every container kind and mixed-case/other pattern strings; input-not-mutated is a differential test.",
      "Non-ASCII pattern strings and scipy container semantics outside the model.")
claim("C20", "DESIGN.md §5 C20",
      "Lean 4 theorems (scan invariant by fold induction for every visiting order; bit-pattern enumeration is a bijection onto binary vectors; optimum/count/gap/mean equal brute-force definitions) + differential correspondence and brute-force oracle",
      "Proved for all n, Q, c: the values report() scans are exactly the QUBO values of all binary vectors (each once); the reported optimum is attained and minimal, the count is the multiplicity of the optimum, "
      "the gap is the distance to the least value strictly above it (absent iff all values are equal), the mean is the sum over all 2^n assignments divided by 2^n; structural metrics are those of the upper-triangular form. "
      "The model of the pinned runner-up rule is refuted in Lean (scanPinned_violates). Model compared with the code on every run; brute-force oracle in exact arithmetic.",
      "The 1e-16 tolerance is modelled as exact equality (all generated values are exact dyadics); density compared as one correctly-rounded float division.")

claim("C15", "DESIGN.md §5 C15",
      "Lean 4 invariant proof by induction over call histories of the graph state machine (all three flavours) + differential correspondence after every call and invariant oracle on the real object",
      "Proved for every finite history of add_node/add_arc/set_depot (base class and the sequence-based overrides): names unique, dict keys unique, every stored arc filed under the current positions of its own "
      "endpoints and passing the timing filter; set_depot puts the depot first; add_arc succeeds iff stored iff the timing rule; raising calls leave the graph unchanged. The model of the pinned set_depot is refuted in Lean. "
      "Model compared with the real object after every call (names, windows, arc dict in order, return value / error kind); object-identity invariant checked on the real graph.",
      "Node objects are immutable after creation, so arcs are modelled by endpoint names; the identity check is in the oracle.")
claim("C19", "DESIGN.md §5 C19",
      "Lean 4 structural induction over expression trees (core Lean): rvs(build e) = evalE e with identical draw counters + differential correspondence with counting stub leaves",
      "Proved for all expression trees over leaves and real constants on either side of + - * / and negation, all sample sizes and all leaf draws: the sampler object built by the operator overloads returns the expression applied "
      "elementwise to the leaf draws, of length m, each leaf occurrence drawn exactly once in left-to-right order; the non-random helper returns its argument iff the length matches. "
      "Model compared with the code on every run (arrays, draw counts); seeded scipy leaves compared with the same numpy operations.",
      "Zero denominators excluded explicitly (numpy inf/nan vs totalised Rat division); float-inexact quotients are skipped and counted.")

for _p in ["C02", "C03", "C04", "C05", "C06", "C07", "C08", "C09", "C10", "C11", "C12", "C13", "C14", "C15", "C16", "C17", "C18", "C19", "C20"]:
    if _p not in CLAIMED:
        NOT_YET[_p] = "check under construction in this round (see DESIGN.md §10 order of construction); not claimed until its command exists"
