# executed by mkmanifest.py: one claim(...) per property that has a working check
claim("C01", "DESIGN.md §5 C01",
      "Lean 4 theorems (energy identities over any char-0 field, both directions; zero diagonal; map inverses) + differential correspondence and exhaustive 2^n energy oracle",
      "Proved for all n, all matrices/constants/field vectors over any field of characteristic 0 and all binary/spin vectors: "
      "evaluate_Ising(QUBO_to_Ising(Q,c), x_to_s(x)) = evaluate_QUBO(Q,c,x) and the converse with arbitrary coupling diagonal; zero diagonal of J; "
      "x_to_s/s_to_x mutually inverse; non-square rejected. The model is compared with the code on every run (dense J,h,c,Q exactly, every container kind); "
      "the 'inputs unmodified / every container type' half is a byte-level differential test, not a theorem.",
      "Float rounding outside the proof; container semantics of scipy trusted.")

for _p in ["C02", "C03", "C04", "C05", "C06", "C07", "C08", "C09", "C10", "C11", "C12", "C13", "C14", "C15", "C16", "C17", "C18", "C19", "C20"]:
    if _p not in CLAIMED:
        NOT_YET[_p] = "check under construction in this round (see DESIGN.md §10 order of construction); not claimed until its command exists"
