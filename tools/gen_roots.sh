#!/bin/sh
# regenerate the root import files of the lean libraries from the files on disk
cd /verif/lean
( for f in $(find VrpProofs -name '*.lean' | sort); do echo "import $(echo ${f%.lean} | tr / .)"; done ) > VrpProofs.lean
( for f in $(find VrpModel -name '*.lean' | sort); do echo "import $(echo ${f%.lean} | tr / .)"; done ) > VrpModel.lean
