#!/usr/bin/env python3
"""Regenerates /verif/MANIFEST.json from the table below (keeps it schema-valid at all times)."""
import json
from pathlib import Path

VERIF = Path(__file__).resolve().parents[1]
PY = "/venv/bin/python"

# id -> (design section, technique, level text, level note)
CLAIMED = {}
NOT_YET = {}


def claim(pid, design, technique, text, note):
    CLAIMED[pid] = dict(design=design, technique=technique, text=text, note=note)


COMMON_NOTE = ("Trusted: Lean 4.33 kernel, axioms {propext, Classical.choice, Quot.sound} only (audited each run), Mathlib; "
               "the hand-written model lean/VrpModel and the differential correspondence check (exact, dyadic inputs) that ties it to "
               "/repo's working tree; CPython/numpy/scipy and IEEE-754 rounding are modelled, not verified. ")

exec((VERIF / "tools" / "claims.py").read_text())

checks = []
for pid in sorted(CLAIMED):
    c = CLAIMED[pid]
    checks.append(dict(
        property_id=pid,
        quick_cmd=f"cd /verif && {PY} -m harness.vh.run --prop {pid} --tier quick",
        thorough_cmd=f"cd /verif && {PY} -m harness.vh.run --prop {pid} --tier thorough",
        evidence_file=f"/verif/evidence/{pid}.json",
        replay_cmd_template=f"cd /verif && {PY} -m harness.vh.run --prop {pid} --replay {{path}}",
        engine="lean4-model+correspondence",
        level_claimed=dict(category="proof", text=c["text"], design_ref=c["design"]),
        level_note=COMMON_NOTE + c["note"],
        technique=c["technique"],
    ))

manifest = dict(
    version=1,
    setup_cmd="cd /verif/lean && lake build VrpModel VrpProofs vrpdriver",
    hooks=dict(
        guard="SMHARWOOD_VRP_AS_QUBO_VERIF",
        enable="no hook in the repository is needed: checks import /repo/src (or $VERIF_REPO/src) in-process; the harness sets SMHARWOOD_VRP_AS_QUBO_VERIF=1 for uniformity",
        baseline_off_cmd="cd /repo && /venv/bin/python -m pytest -ra -q -p no:cacheprovider --timeout=900 --continue-on-collection-errors",
        source_commits=[],
        add_only=True,
    ),
    engines=[dict(
        name="lean4-model+correspondence",
        path="/verif/lean (model, theorems, driver) + /verif/harness/vh (correspondence, oracles, search)",
        serves_properties=sorted(CLAIMED),
        kind_free_text="machine-checked proof in Lean 4 about a hand-written executable model; the model is tied to the code on every run by a differential correspondence check through a compiled line-protocol driver; failing-input search with exact oracles when a proof or the correspondence breaks",
    )],
    checks=checks,
    not_applicable=[dict(property_id=p, reason=r) for p, r in sorted(NOT_YET.items())],
    notes="See DESIGN.md. exit 0 held / exit 1 violation (VIOLATION line) / exit 2 infrastructure fault. Known findings: /verif/known_findings.txt.",
)
(VERIF / "MANIFEST.json").write_text(json.dumps(manifest, indent=1))
print(f"claimed {len(checks)}, not claimed {len(NOT_YET)}")
