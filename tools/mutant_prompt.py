#!/usr/bin/env python3
"""mutant_prompt.py <wt_root> <out_root> <property id>  — prints the task text given to an independent sub-agent that is asked to seed
a regression (it sees only the property text and its own scratch worktree <wt_root>/<id>; results go to <out_root>/<id>/)."""
import json
import sys

wt, out, pid = sys.argv[1], sys.argv[2], sys.argv[3]
p = next(json.loads(l) for l in open('/verif/properties.jsonl') if json.loads(l)['id'] == pid)
print(f"""You are a software engineer asked to seed a realistic regression into a Python package, for the purpose of evaluating a verification tool. You work ONLY inside the git worktree {wt}/{pid} (a checkout of the package smharwood/vrp-as-qubo: Python sources under src/vrpqubo, tests under src/vrpqubo/tests) and write your results to {out}/{pid}/. Do not read or touch /verif, /repo or any other directory under /tmp.

The property that your change must BREAK:

  id: {p['id']}
  title: {p['title']}
  statement: {p['statement']}
  quantifier: {p['quantifier']['text']}

IMPORTANT — pick a NON-OBVIOUS site, and prefer one that is reached through a LESS COMMON BUT LEGITIMATE way of using the package (the formulation object's own add_node/add_arc/set_depot API instead of a finished VRPTW, the MIRP getters with non-default arguments, a QUBOContainer built from a sparse/LIL/integer matrix, exporting twice, calling the heuristic twice, querying before configuring, float vs int arguments, numpy scalars). Other engineers have already seeded the most obvious single-line slips for this property (a wrong operand or sign in the main formula, an off-by-one at a window bound, a dropped flag reset in the heuristic, a shallow copy, a missing seed) and also these kinds: a missing cache invalidation after a mutator or in the heuristic, a list or array shared between caller and object, truthiness tests on 0 / empty containers, in-place re-keying of dictionaries, mutable default arguments and class-level containers, memoisation that is never invalidated, casting one argument to another argument's dtype, guards of the form isinstance(x, int) that forget numpy integers, `or` short-circuits that skip a second call, statements re-ordered around a call that re-numbers nodes, one-shot iterators (map / generator expressions) consumed twice, results computed with a + (b - a) instead of max(a, b), in-place arithmetic that keeps an integer dtype, `break` for `continue`, two special-case rules merged with `elif` although both can apply, index tables zipped with value tables of different length, masking a division by zero. Your change must be of a DIFFERENT kind (think of: behaviour that depends on the TYPE or SHAPE of an argument; arithmetic on a rarely taken branch; an ordering assumption; a comparison with the wrong strictness on a rarely hit boundary; a unit or index mix-up between two tables; a loop that stops one element early only for a special shape; an exception handled too broadly; state left behind by a call that raises; a default argument evaluated at the wrong time; a name shadowing). Prefer one of: (1) two cooperating edits in different functions/files that each look harmless alone; (2) a slip that only matters on the second call / after a specific earlier call; (3) a boundary case of the data (zero travel time, empty list, a node that is both reachable and already served, equal window ends, a single customer, sequence length exactly 3, costs that cancel, a non-default optional argument); (4) an error-handling path.

Your job: make ONE small, realistic source change (typically 1-6 changed lines, in src/vrpqubo but NOT in src/vrpqubo/tests) such that
  (a) the package still imports and the existing test-suite still passes completely:
        cd {wt}/{pid} && PYTHONPATH={wt}/{pid}/src /venv/bin/python -m pytest -q -p no:cacheprovider src/vrpqubo/tests
      (PYTHONPATH makes `import vrpqubo` resolve to the worktree instead of the installed copy; check with `PYTHONPATH={wt}/{pid}/src /venv/bin/python -c "import vrpqubo; print(vrpqubo.__file__)"`);
  (b) the property above is violated by the changed code;
  (c) the violation needs something SPECIFIC to manifest — a particular interleaving or order of calls, a multi-step sequence of operations, an unusual but legitimate input, or two cooperating sites that each look fine alone — i.e. NOT something that any ordinary use of the package would expose immediately, and not something the existing tests catch.

Then write a demonstration: a small stand-alone Python program {out}/{pid}/demo.py that takes the source root as its first argument (it must do `sys.path.insert(0, sys.argv[1])` before importing vrpqubo), exercises the package through its public API, and exits 0 when the property holds on its scenario and exits 1 (printing what went wrong) when it does not. It must exit 1 with your change (`/venv/bin/python {out}/{pid}/demo.py {wt}/{pid}/src`) and exit 0 on the unmodified sources (do NOT use git stash (it is shared between worktrees); check with `git -C {wt}/{pid} diff > patch; git checkout -- .; run; git apply patch`).

Deliverables (all required):
  1. {out}/{pid}/patch.diff  — output of `git -C {wt}/{pid} diff` (unified diff, relative to the worktree root, applicable with `git apply`).
  2. {out}/{pid}/demo.py     — as described.
  3. {out}/{pid}/notes.md    — 5-10 lines: what you changed, why it breaks the property, what it needs in order to manifest, the exact commands you ran and their results (test-suite result with the change; demo exit code with and without the change).
Leave the worktree WITH your change applied when you finish. Do not commit. Read the relevant source first; choose a change whose effect you have actually verified by running the demo. Final reply: one paragraph summarising the change and confirming the three checks (tests pass with change, demo fails with change, demo passes without).""")
