#!/usr/bin/env python3
"""neutral_prompt.py <wt_root> <out_root> <property id>  — prints the task text given to an independent sub-agent that is asked to
write PROPERTY-NEUTRAL behaviour changes: changes that alter something observable but leave the property true (the checks must stay
silent on them).  The agent sees only the property text and its own scratch worktree."""
import json
import sys

wt, out, pid = sys.argv[1], sys.argv[2], sys.argv[3]
p = next(json.loads(l) for l in open('/verif/properties.jsonl') if json.loads(l)['id'] == pid)
print(f"""You are a software engineer helping to evaluate a verification tool for FALSE ALARMS. You work ONLY inside the git worktree {wt}/{pid} (a checkout of the Python package smharwood/vrp-as-qubo: sources under src/vrpqubo, tests under src/vrpqubo/tests) and write your results to {out}/{pid}/. Do not read or touch /verif, /repo or any other directory under /tmp.

The tool claims to decide the following property of the package and must NOT raise an alarm on code for which the property still holds:

  id: {p['id']}
  title: {p['title']}
  statement: {p['statement']}
  quantifier: {p['quantifier']['text']}

Your job: write THREE separate, independent source changes (each 1-15 changed lines in src/vrpqubo, NOT in src/vrpqubo/tests), each of which
  (a) really CHANGES something a caller can observe in the code the property talks about (so it is not a pure refactoring), yet
  (b) leaves the property above TRUE for every input in its quantifier, read literally and carefully — the change only touches behaviour the property does not constrain, and
  (c) keeps the existing test-suite green:
        cd {wt}/{pid} && PYTHONPATH={wt}/{pid}/src /venv/bin/python -m pytest -q -p no:cacheprovider src/vrpqubo/tests
  (d) is something a maintainer might plausibly do.
Kinds of change to think of (pick three DIFFERENT kinds, and prefer the ones closest to the functions the property names): another exception class or message for input that is rejected anyway (or rejecting it slightly earlier/later, as long as the property says nothing about that); an additional argument validation that only rejects input OUTSIDE the property's quantifier; another iteration / enumeration order where the property fixes no order (e.g. sorted instead of insertion order of something internal); another but equally valid choice where the property allows several answers; returning an equal copy instead of the same object (or a tuple instead of a list, a numpy integer instead of an int, a float64 array instead of an int array with equal values) where the property only speaks about values; computing a result lazily instead of eagerly or caching it differently without changing any answer; different printed output / logging / warnings; different internal attribute names or representation (dict vs list) behind the same public API; a different but mathematically equal arrangement of a formula that is exact on the data the property quantifies over; extra public attributes or methods. Do NOT weaken or break the property, not even on a corner case — if in doubt, choose a safer change. Do not use git stash (it is shared between worktrees).

Deliverables (all required), for k = 1, 2, 3:
  {out}/{pid}/neutral<k>.diff — unified diff of change k ALONE relative to the unmodified worktree (`git -C {wt}/{pid} diff > ...`, then `git -C {wt}/{pid} checkout -- .` before starting the next one), applicable with `git apply`.
  {out}/{pid}/notes.md — for each change: what a caller can now observe that differs (with a 3-line Python snippet showing the difference), and a careful argument why the property still holds for every input in its quantifier; the test-suite result with the change.
Leave the worktree clean (no change applied) when you finish. Do not commit. Final reply: one short paragraph per change.""")
