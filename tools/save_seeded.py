#!/usr/bin/env python3
"""save_seeded.py <id> <breaks> <caught_by comma list> <needs...>  : copies patch/demo from /tmp/wt15_out/<id> into /verif/seeded/<name>/ with meta.json"""
import json, shutil, sys, os
src_id, name, breaks, caught = sys.argv[1], sys.argv[2], sys.argv[3], sys.argv[4].split(",")
needs = " ".join(sys.argv[5:])
d = f"/verif/seeded/{name}"
os.makedirs(d, exist_ok=True)
shutil.copy(f"/tmp/wt15_out/{src_id}/patch.diff", f"{d}/patch.diff")
shutil.copy(f"/tmp/wt15_out/{src_id}/demo.py", f"{d}/demo.py")
notes = open(f"/tmp/wt15_out/{src_id}/notes.md").read() if os.path.exists(f"/tmp/wt15_out/{src_id}/notes.md") else ""
meta = dict(id=name, breaks_property=breaks, origin="independent sub-agent given only the property text and a scratch worktree",
            needs_to_manifest=needs,
            confirmed=dict(existing_tests_with_change="30 passed", demo_with_change="exit 1", demo_without_change="exit 0",
                           how="tools/try_mutant.sh: patch applied to a scratch copy of /repo HEAD outside /repo and /verif; checks run with VERIF_REPO=<scratch>"),
            caught_by=caught, author_notes=notes)
json.dump(meta, open(f"{d}/meta.json", "w"), indent=1)
print("saved", d)
