#!/usr/bin/env python3
"""Runs every quick check against every seeded change (scratch copies, VERIF_REPO) and writes seeded/MATRIX.md."""
import json, os, subprocess, sys, tempfile, shutil
from concurrent.futures import ThreadPoolExecutor
from pathlib import Path

VERIF = Path(__file__).resolve().parents[1]
PROPS = [f"C{i:02d}" for i in range(1, 21)]


def one(name):
    d = VERIF / "seeded" / name
    scratch = Path(tempfile.mkdtemp(prefix="mutant."))
    try:
        subprocess.run(f"git -C /repo archive HEAD | tar -x -C {scratch}", shell=True, check=True)
        subprocess.run(["git", "init", "-q", "."], cwd=scratch, check=True)
        r = subprocess.run(["git", "apply", str(d / "patch.diff")], cwd=scratch)
        if r.returncode != 0:
            return name, {"error": "patch does not apply"}
        env = dict(os.environ, VERIF_REPO=str(scratch), VERIF_EVIDENCE_DIR=str(scratch / "evidence"))
        out = {}
        for p in PROPS:
            r = subprocess.run(["/venv/bin/python", "-m", "harness.vh.run", "--prop", p, "--tier", "quick"], cwd=VERIF, env=env,
                               stdout=subprocess.PIPE, stderr=subprocess.STDOUT, text=True, timeout=1800)
            viol = [l for l in r.stdout.splitlines() if l.startswith("VIOLATION")]
            out[p] = "fail-input" if (r.returncode == 1 and viol and "no-failing-input-found" not in viol[0]) else \
                ("no-input" if r.returncode == 1 else ("ok" if r.returncode == 0 else f"rc{r.returncode}"))
        return name, out
    finally:
        shutil.rmtree(scratch, ignore_errors=True)


def main():
    names = sorted(p.name for p in (VERIF / "seeded").iterdir() if (p / "patch.diff").exists())
    todo = names
    old = {}
    if len(sys.argv) > 2:
        # `seeded_matrix.py <workers> new`  : only the changes that have no row yet (or whose row is an error); rows are merged
        # `seeded_matrix.py <workers> <substring> …` : only matching names
        old = json.loads((VERIF / "seeded" / "MATRIX.json").read_text())
        if sys.argv[2] == "new":
            todo = [n for n in names if n not in old or "error" in old[n]]
        else:
            todo = [n for n in names if any(a in n for a in sys.argv[2:])]
    with ThreadPoolExecutor(max_workers=int(sys.argv[1]) if len(sys.argv) > 1 else 5) as ex:
        res = dict(ex.map(one, todo))
    res = {n: res.get(n, old.get(n)) for n in names if n in res or n in old}
    names = [n for n in names if n in res]
    (VERIF / "seeded" / "MATRIX.json").write_text(json.dumps(res, indent=1))
    lines = ["# Which quick check reports which seeded change (F = violation with a failing input, n = violation without failing input, . = passes)", "",
             "| seeded change | " + " | ".join(p[1:] for p in PROPS) + " |", "|---|" + "---|" * len(PROPS)]
    for n in names:
        r = res[n]
        lines.append(f"| {n} | " + " | ".join({"fail-input": "F", "no-input": "n", "ok": "."}.get(r.get(p, "?"), r.get(p, "?")) for p in PROPS) + " |")
    (VERIF / "seeded" / "MATRIX.md").write_text("\n".join(lines) + "\n")
    print("\n".join(lines))


if __name__ == "__main__":
    main()
