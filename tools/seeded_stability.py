#!/usr/bin/env python3
"""For every seeded change: runs the quick checks named in its meta.json `caught_by` under several seeds (scratch copies, VERIF_REPO)
and writes seeded/STABILITY.md — a seeded change must be reported by its target check under every seed."""
import json, os, subprocess, sys, tempfile, shutil
from concurrent.futures import ThreadPoolExecutor
from pathlib import Path

VERIF = Path(__file__).resolve().parents[1]
SEEDS = [1, 2, 3, 20260930]


def one(name):
    d = VERIF / "seeded" / name
    meta = json.loads((d / "meta.json").read_text())
    scratch = Path(tempfile.mkdtemp(prefix="mutant."))
    try:
        subprocess.run(f"git -C /repo archive HEAD | tar -x -C {scratch}", shell=True, check=True)
        subprocess.run(["git", "init", "-q", "."], cwd=scratch, check=True)
        if subprocess.run(["git", "apply", str(d / "patch.diff")], cwd=scratch).returncode != 0:
            return name, {"error": "patch does not apply"}
        out = {}
        for p in meta["caught_by"][:1]:
            for s in SEEDS:
                env = dict(os.environ, VERIF_REPO=str(scratch), VERIF_EVIDENCE_DIR=str(scratch / "evidence"), VERIF_SEED=str(s))
                r = subprocess.run(["/venv/bin/python", "-m", "harness.vh.run", "--prop", p, "--tier", "quick"], cwd=VERIF, env=env,
                                   stdout=subprocess.PIPE, stderr=subprocess.STDOUT, text=True, timeout=1800)
                viol = [l for l in r.stdout.splitlines() if l.startswith("VIOLATION")]
                out[f"{p}/{s}"] = "F" if (r.returncode == 1 and viol and "no-failing-input-found" not in viol[0]) else \
                    ("n" if r.returncode == 1 else ("MISSED" if r.returncode == 0 else f"rc{r.returncode}"))
        return name, out
    finally:
        shutil.rmtree(scratch, ignore_errors=True)


def main():
    names = sorted(p.name for p in (VERIF / "seeded").iterdir() if (p / "patch.diff").exists())
    if len(sys.argv) > 2:
        names = [n for n in names if any(a in n for a in sys.argv[2:])]
    with ThreadPoolExecutor(max_workers=int(sys.argv[1]) if len(sys.argv) > 1 else 5) as ex:
        res = dict(ex.map(one, names))
    lines = ["# Detection of every seeded change by its target check under several seeds (F = failing input, n = broken obligation only)", "",
             "| seeded change | target | " + " | ".join(map(str, SEEDS)) + " |", "|---|---|" + "---|" * len(SEEDS)]
    for n in names:
        r = res[n]
        tgt = sorted({k.split("/")[0] for k in r if "/" in k})
        lines.append(f"| {n} | {','.join(tgt)} | " + " | ".join(r.get(f"{tgt[0]}/{s}", "?") if tgt else "?" for s in SEEDS) + " |")
    if len(sys.argv) <= 2:
        (VERIF / "seeded" / "STABILITY.md").write_text("\n".join(lines) + "\n")
    print("\n".join(lines))


if __name__ == "__main__":
    main()
