#!/bin/bash
# usage: try_mutant.sh <patch.diff> <demo.py|-> [props...]   (default: all 20 quick checks)
# Applies the patch to a scratch copy of /repo (outside /repo and /verif), confirms that the existing tests still pass and the
# demo fails with / passes without the change, then runs the quick checks against the scratch copy with VERIF_REPO. Prints a summary.
set -u
patch=$(readlink -f "$1"); demo=$2; shift 2
props=${*:-C01 C02 C03 C04 C05 C06 C07 C08 C09 C10 C11 C12 C13 C14 C15 C16 C17 C18 C19 C20}
scratch=$(mktemp -d /tmp/mutant.XXXXXX)
trap 'rm -rf "$scratch"' EXIT
git -C /repo archive HEAD | tar -x -C "$scratch"
( cd "$scratch" && git init -q . 2>/dev/null && git apply "$patch" ) || { echo "PATCH-DOES-NOT-APPLY"; exit 3; }
tests=$(cd "$scratch" && PYTHONPATH=$scratch/src /venv/bin/python -m pytest -q -p no:cacheprovider src/vrpqubo/tests 2>&1 | tail -1)
echo "existing tests with the change: $tests"
if [ "$demo" != "-" ]; then
  /venv/bin/python "$demo" "$scratch/src" >/dev/null 2>&1; echo "demo with change: exit $?"
  /venv/bin/python "$demo" /repo/src >/dev/null 2>&1; echo "demo without change: exit $?"
fi
cd /verif
export VERIF_REPO=$scratch
export VERIF_EVIDENCE_DIR=$scratch/evidence
for p in $props; do
  out=$(timeout 1200 /venv/bin/python -m harness.vh.run --prop $p --tier quick 2>&1); rc=$?
  v=$(echo "$out" | grep -c "^VIOLATION")
  echo "$p rc=$rc $(echo "$out" | grep -E '^VIOLATION|^failing input|^broken obligation' | head -2 | tr '\n' ' ' | cut -c1-300)"
done
