#!/bin/bash
# usage: try_neutral.sh <patch.diff> [props...]  — like try_mutant.sh without a demo; prints one line per check (expected: rc=0 everywhere)
exec "$(dirname "$0")/try_mutant.sh" "$1" - "${@:2}"
